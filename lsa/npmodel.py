"""Term-level models of numpy / scipy / builtin callables (DESIGN app. C).
Anything not listed evaluates to an uninterpreted application."""
from fractions import Fraction

from . import nf
from .nf import Poly, Tup, Const, Slice, app, as_poly, NONE

ELEMENTWISE_UNARY = {
    'exp', 'expm1', 'log', 'log10', 'sin', 'cos', 'tan', 'sinc', 'deg2rad', 'radians',
    'rad2deg', 'angle', 'real', 'imag', 'conj', 'conjugate', 'fix', 'rint', 'round', 'around',
    'isinf', 'isnan', 'isfinite', 'invert', 'logical_not', 'sign', 'arctan', 'arcsin', 'arccos', 'trunc',
}
# trunc and fix both round toward zero
ALIAS = {'conjugate': 'conj', 'absolute': 'abs', 'around': 'round', 'radians': 'deg2rad', 'rint': 'round', 'trunc': 'fix'}


def is_vec(v):
    return isinstance(v, Tup)


def lift(f, *vals):
    """Apply f elementwise over Tup vectors (numpy broadcasting of known-length
    vectors with scalars)."""
    n = None
    for v in vals:
        if isinstance(v, Tup):
            if n is not None and len(v) != n:
                return None
            n = len(v)
    if n is None:
        return f(*vals)
    out = []
    for i in range(n):
        out.append(lift(f, *[v.items[i] if isinstance(v, Tup) else _shape_vector_elem(v, i) for v in vals]))
        if out[-1] is None:
            return None
    return Tup(out, 'vec')


_SHAPE_ELEMENTWISE = ('floor', 'ceil', 'abs', 'round', 'rint', 'fix', 'negative', 'cast', 'm:astype', 'asarray', 'array', 'copy', 'trunc')


# functions of the package whose result is a (row, col) pair
_PAIR_RESULTS = ('call:util.centroid',)


def _shape_vector_elem(v, i):
    """Item i of an expression that is element-wise in an un-indexed `.shape` (a sequence): floor(x.shape/2) meets the
    i-th item of a vector of known length as floor(x.shape[i]/2)."""
    if not isinstance(v, Poly) or v.const_value() is not None:
        return v
    sa = v.single_atom()
    if sa is not None and sa[0] == 'app' and sa[1] in _PAIR_RESULTS:
        return nf.index(v, Poly.const(i))       # a (row, col) pair met by a vector of known length
    atoms = v.atoms(deep=True)
    sh = [a for a in atoms if a[0] == 'attr' and a[2] == 'shape']
    if not sh:
        return v
    for a in atoms:
        if a in sh or a[0] in ('sym', 'attr') and not any(x in sh for x in Poly.atom(a).atoms(deep=True) if x != a):
            continue
        inside = [x for x in Poly.atom(a).atoms(deep=True) if x in sh]
        if inside and not (a[0] == 'app' and a[1] in _SHAPE_ELEMENTWISE):
            return v
    return nf.subst_value(v, {a: nf.index(Poly.atom(a), Poly.const(i)) for a in sh})


def P(v):
    """Coerce a value to Poly where possible (Const -> opaque atom)."""
    if isinstance(v, Poly):
        return v
    if isinstance(v, Const):
        if isinstance(v.value, bool):
            return Poly.const(int(v.value))
        return Poly.atom(('val', v))
    if isinstance(v, (Tup, Slice)):
        return Poly.atom(('val', v))
    return as_poly(v)


def arith(op, a, b):
    def f(x, y):
        x, y = P(x), P(y)
        if op == 'add':
            return x + y
        if op == 'sub':
            return x - y
        if op == 'mul':
            return x * y
        if op == 'div':
            return x / y
        if op == 'floordiv':
            return nf.floor(x / y)
        if op == 'pow':
            return x ** y
        if op == 'mod':
            cx, cy = x.const_value(), y.const_value()
            if cx is not None and cy is not None and cy != 0:
                return Poly.const(cx % cy)
            return app('mod', x, y)
        if op == 'matmul':
            return app('dot', x, y)
        return app(op, x, y)
    if op in ('mul', 'add', 'sub', 'div'):
        # rows * column_vector[:, None], planes - vector[:, None, None]: item k of the vector meets row / plane k
        for rows, col, swap in ((a, b, False), (b, a, True)):
            ca = col.single_atom() if isinstance(col, Poly) else None
            if isinstance(rows, Tup) and ca is not None and ca[0] == 'idx' and ca[1][0] == 'val' and isinstance(ca[1][1], Tup) \
                    and len(ca[1][1]) == len(rows) and isinstance(ca[2], Tup) and len(ca[2]) >= 2 \
                    and isinstance(ca[2].items[0], Slice) and ca[2].items[0] == Slice(NONE, NONE) \
                    and all(k == NONE for k in ca[2].items[1:]) \
                    and all(_arrayish(r) or _grid_plane(r, len(ca[2]) - 1) for r in rows.items) \
                    and (op == 'mul' or all(_grid_plane(r, len(ca[2]) - 1) for r in rows.items)):
                return Tup([f(x, r) if swap else f(r, x) for r, x in zip(rows.items, ca[1][1].items)], rows.kind if op != 'mul' else 'vec')
    if op == 'matmul':
        # a contraction, not an element-wise operation: two short vectors of scalars give the sum of the products
        if isinstance(a, Tup) and isinstance(b, Tup) and len(a) == len(b) and a.items and \
                all(isinstance(x, Poly) and _dimlike(x) for x in a.items + b.items):
            out = Poly.const(0)
            for x, y in zip(a.items, b.items):
                out = out + x * y
            return out
        return app('dot', P(a), P(b))
    r = lift(f, a, b)
    return r if r is not None else app(op, P(a), P(b))


def unary(name, x):
    name = ALIAS.get(name, name)

    def f(v):
        v = P(v)
        if name == 'sqrt':
            return v.pow(Fraction(1, 2))
        if name == 'square':
            return v.pow(2)
        if name == 'reciprocal':
            return v.pow(-1)
        if name == 'negative':
            return -v
        if name == 'floor':
            return nf.floor(v)
        if name == 'ceil':
            return nf.ceil(v)
        if name == 'abs':
            return nf_abs(v)
        if name == 'expm1':
            return app('exp', v) - 1
        if name == 'exp' and v.is_zero():
            return nf.ONE
        return app(name, v)
    r = lift(f, x)
    return r if r is not None else app(name, P(x))


def nf_abs(v):
    """|c*a^e*b^f| = |c|*|a|^e*|b|^f ; | |x| | = |x| ; |i| = 1 ; |pi| = pi."""
    cv = v.const_value()
    if cv is not None:
        return Poly.const(abs(cv))
    if len(v.terms) == 1:
        m, c = v.terms[0]
        out = Poly.const(abs(c))
        for a, e in m:
            if a == nf.I_ATOM:
                continue
            if a == nf.PI_ATOM or a[0] == 'num' or (a[0] == 'app' and a[1] in ('abs', 'sqrt')):
                out = out * Poly.atom(a, e)
            elif e.denominator == 1 or a[0] != 'poly':
                out = out * app('abs', Poly.atom(a)).pow(e)
            else:
                out = out * app('abs', Poly.atom(a)).pow(e)
        return out
    return app('abs', v)


def _kwv(kw, name, default=None):
    return kw.get(name, default)


def h_identity(ip, st, args, kw, node):
    x = args[0] if args else NONE
    dt = kw.get('dtype') or (args[1] if len(args) > 1 else None)
    if dt is not None and dt != NONE:
        if isinstance(x, Tup):
            def c(i):
                iv = i.const_value() if isinstance(i, Poly) else None
                if iv is not None and ('int' not in repr(dt) or iv.denominator == 1):
                    return i            # a constant that the cast leaves alone
                return app('cast', P(i), dt) if isinstance(i, (Poly, Const)) else i
            return Tup([c(i) for i in x.items], 'vec')
        return app('cast', P(x), dt)
    if isinstance(x, Tup):
        return Tup(x.items, 'vec')
    return x


def h_array(ip, st, args, kw, node):
    x = args[0] if args else NONE
    if isinstance(x, Tup):
        dt_ = kw.get('dtype', args[1] if len(args) > 1 else None)
        if dt_ is not None and dt_ != NONE:
            # np.array([a, b], dtype=t): every item is cast (an integer type truncates fractional items)
            def c(i):
                iv = i.const_value() if isinstance(i, Poly) else None
                if iv is not None and ('int' not in repr(dt_) or iv.denominator == 1):
                    return i
                return app('cast', P(i), dt_) if isinstance(i, (Poly, Const)) else i
            return Tup([c(i) for i in x.items], 'vec')
        return Tup(x.items, 'vec')
    if isinstance(x, Poly) and x.const_value() is not None and 'dtype' not in kw:
        return x
    if isinstance(x, Poly) and x.single_atom() is not None and x.single_atom()[0] == 'attr' and x.single_atom()[2] == 'shape' \
            and 'dtype' not in kw and len(args) == 1:
        return x            # np.array(a.shape): the same numbers (a shape tuple cannot be written through)
    dt = kw.get('dtype', args[1] if len(args) > 1 else None)
    if dt is not None and dt != NONE:
        return app('copy', app('cast', P(x), dt))      # a new array of another type
    return app('copy', P(x))


def h_broadcast_to(ip, st, args, kw, node):
    x, shp = args[0], args[1] if len(args) > 1 else kw.get('shape')
    if isinstance(shp, Tup) and len(shp) == 1 and isinstance(shp.items[0], Poly) \
            and shp.items[0].const_value() == 2:
        if isinstance(x, Tup):
            if len(x) == 2:
                return Tup(x.items, 'vec')
            if len(x) == 1:
                return Tup([x.items[0], x.items[0]], 'vec')
        if isinstance(x, Poly):
            if x.const_value() is not None:
                return Tup([x, x], 'vec')
            return Tup([nf.index(x, Poly.const(0)), nf.index(x, Poly.const(1))], 'vec')
    if isinstance(shp, Tup) and len(shp) >= 2 and isinstance(x, Poly) and all(isinstance(i, Poly) for i in shp.items):
        # the values of x repeated over the axes it lacks: what x * ones(shape) holds
        return x * app('ones', Tup(shp.items))
    return app('broadcast_to', P(x), P(shp))


def _reduce2(name):
    def h(ip, st, args, kw, node):
        x = args[0]
        if len(args) == 1 and isinstance(x, Tup) and 'axis' not in kw:
            items = [P(i) for i in x.items]
            if all(i.const_value() is not None for i in items) and items:
                f = max if name == 'max' else min
                return Poly.const(f(i.const_value() for i in items))
            return app(name, *items)
        if len(args) >= 2 and name in ('max', 'min') and ip_is_builtin(node):
            return app(name, *[P(a) for a in args])
        extra = {k: v for k, v in kw.items()}
        return app('a' + name, P(x), *[P(a) for a in args[1:]], **extra)
    return h


def ip_is_builtin(node):
    import ast
    return isinstance(node.func, ast.Name)


def h_builtin_minmax(name):
    def h(ip, st, args, kw, node):
        if len(args) == 1:
            x = args[0]
            if isinstance(x, Tup):
                return app(name, *[P(i) for i in x.items])
            return app('a' + name, P(x))
        vals = [P(a) for a in args]
        if all(v.const_value() is not None for v in vals):
            f = max if name == 'max' else min
            return Poly.const(f(v.const_value() for v in vals))
        return app(name, *vals)
    return h


def h_unary(name):
    return lambda ip, st, args, kw, node: _with_out(ip, st, unary(name, args[0]), kw, node)


def h_binary(op):
    return lambda ip, st, args, kw, node: _with_out(ip, st, arith(op, args[0], args[1]), kw, node)


def _with_out(ip, st, value, kw, node):
    out = kw.get('out')
    if out is None and False:
        return value
    if out is not None and out != NONE:
        ip.log_write(st, 'out=', out, node, value=value)
        ip.pending_out = (node, value)
    return value


def h_dot(ip, st, args, kw, node):
    v = app('dot', P(args[0]), P(args[1]))
    return _with_out(ip, st, v, kw, node)


def h_len(ip, st, args, kw, node):
    x = args[0]
    if isinstance(x, Tup):
        return Poly.const(len(x))
    return app('len', P(x))


def h_tuple(kind):
    def h(ip, st, args, kw, node):
        if not args:
            return Tup([], kind)
        x = args[0]
        if isinstance(x, Tup):
            return Tup(x.items, kind)
        if isinstance(x, Poly) and x.single_atom() is not None:
            # tuple(record): the fields of a NamedTuple in order
            from .interp import RECORD_FIELDS
            fields = RECORD_FIELDS.get(x.single_atom())
            if fields and all(nf.attr(x, f_).single_atom() in st.heap for f_ in fields):
                return Tup([st.heap[nf.attr(x, f_).single_atom()] for f_ in fields], kind)
        return x
    return h


def h_int(ip, st, args, kw, node):
    x = args[0] if args else Poly.const(0)
    if isinstance(x, Poly):
        cv = x.const_value()
        if cv is not None:
            return Poly.const(int(cv))
        # int(parameter): the value is truncated - unless the parameter is one of those that denote integers (sizes, counts,
        # indices).  Everything else the package passes to int() is integer valued already (extents, shapes, floors).
        a_ = x.single_atom()
        if a_ is not None and a_[0] == 'sym' and a_[1] not in nf.INTEGER_SYMS and getattr(ip, 'cur', None) is not None \
                and a_[1] in (ip.cur.param_names() if hasattr(ip.cur, 'param_names') else ()) \
                and not any(k in a_[1].lower() for k in ('shape', 'size', 'order', 'index', 'count', 'num', 'nrow', 'ncol', 'rings', 'oversample',
                                                          'factor', 'seed', 'dim', 'npix', 'n_')) and len(a_[1]) > 2:
            return app('trunc', x)
        return x
    return P(x)


def h_float(ip, st, args, kw, node):
    return args[0] if args and isinstance(args[0], Poly) else P(args[0]) if args else Poly.const(0)


def h_slice(ip, st, args, kw, node):
    a = list(args) + [NONE] * (3 - len(args))
    if len(args) == 1:
        return Slice(NONE, a[0], NONE)
    return Slice(a[0], a[1], a[2])


def h_meshgrid(ip, st, args, kw, node):
    idx = kw.get('indexing', Const('xy'))
    return Tup([app('meshgrid', *[P(a) for a in args], idx, Poly.const(k)) for k in range(len(args))])


def h_zeros(name):
    def h(ip, st, args, kw, node):
        shp = args[0] if args else kw.get('shape', NONE)
        extra = {}
        if 'dtype' in kw:
            extra['dtype'] = kw['dtype']
        elif len(args) > 1:
            extra['dtype'] = args[1]
        return app(name, shp if isinstance(shp, (Tup, Poly)) else P(shp), **extra)
    return h


def h_clip(ip, st, args, kw, node):
    return _with_out(ip, st, app('clip', P(args[0]), P(args[1]), P(args[2])), kw, node)


def h_isinstance(ip, st, args, kw, node):
    return app('isinstance', P(args[0]), P(args[1]))


def h_generic(name):
    def h(ip, st, args, kw, node):
        v = app(name, *[a if isinstance(a, (Poly, Tup, Const, Slice)) else P(a) for a in args], **kw)
        return _with_out(ip, st, v, kw, node) if 'out' in kw else v
    return h


def rank_of(x):
    """number of axes of an array term when its construction shows it (reshape / reductions of one), else None"""
    a = x.single_atom() if isinstance(x, Poly) else None
    if a is None or a[0] != 'app':
        return None
    if a[1] == 'm:reshape':
        dims = a[2][1:]
        if len(dims) == 1 and isinstance(dims[0], Tup):
            return len(dims[0])
        return len(dims) if all(isinstance(d, Poly) for d in dims) else None
    if a[1] in ('sum', 'amax', 'amin', 'any', 'all', 'mean') and len(a[2]) == 2 and isinstance(a[2][1], Tup):
        r = rank_of(a[2][0])
        return r - 1 if r else None
    return None


def norm_axis(x, ax):
    """a negative axis is counted from the front when the rank of x is known"""
    if isinstance(ax, Poly) and ax.const_value() is not None and ax.const_value() < 0:
        r = rank_of(P(x))
        if r is not None:
            return Poly.const(ax.const_value() + r)
    return ax


def h_sum(ip, st, args, kw, node):
    x = args[0]
    extra = {k: v for k, v in kw.items() if k != 'axis'}
    ax = kw.get('axis', args[1] if len(args) > 1 else None)
    if ax is not None and ax != NONE:
        extra['axis'] = norm_axis(x, ax)
    return app('sum', P(x), **extra)


HANDLERS = {}
for _n in ('asarray', 'asanyarray', 'ascontiguousarray', 'atleast_1d', 'atleast_2d'):
    HANDLERS['numpy.' + _n] = h_identity
HANDLERS['numpy.array'] = h_array
HANDLERS['numpy.copy'] = lambda ip, st, a, kw, node: app('copy', P(a[0]))
HANDLERS['copy.deepcopy'] = lambda ip, st, a, kw, node: app('deepcopy', P(a[0]))
HANDLERS['copy.copy'] = lambda ip, st, a, kw, node: app('shallowcopy', P(a[0]))
HANDLERS['numpy.broadcast_to'] = h_broadcast_to


def _h_array_attr(name):
    def h(ip, st, args, kw, node):
        # np.shape(x) / np.size(x) / np.ndim(x) of an array is x.shape / x.size / x.ndim
        if len(args) == 1 and not kw and isinstance(args[0], (Poly, Tup)):
            try:
                return ip.load_attr(args[0], name, st, node)
            except Exception:
                pass
        return app(f'numpy.{name}', *[P(a) if not isinstance(a, (Poly, Tup, Const)) else a for a in args])
    return h


for _nm in ('shape', 'size', 'ndim'):
    HANDLERS[f'numpy.{_nm}'] = _h_array_attr(_nm)
for _n in ELEMENTWISE_UNARY | {'sqrt', 'square', 'reciprocal', 'negative', 'floor', 'ceil', 'abs',
                               'absolute'}:
    HANDLERS['numpy.' + _n] = h_unary(_n)
for _n, _op in (('add', 'add'), ('subtract', 'sub'), ('multiply', 'mul'), ('divide', 'div'),
                ('true_divide', 'div'), ('power', 'pow'), ('floor_divide', 'floordiv'),
                ('mod', 'mod'), ('matmul', 'matmul')):
    HANDLERS['numpy.' + _n] = h_binary(_op)
HANDLERS['numpy.dot'] = h_dot
HANDLERS['numpy.max'] = HANDLERS['numpy.amax'] = _reduce2('max')
HANDLERS['numpy.min'] = HANDLERS['numpy.amin'] = _reduce2('min')
def h_maxmin2(name):
    def h(ip, st, a, kw, node):
        r = lift(lambda x, y: app(name, P(x), P(y)), a[0], a[1])
        return r if r is not None else app(name, P(a[0]), P(a[1]))
    return h


HANDLERS['numpy.maximum'] = h_maxmin2('max')
HANDLERS['numpy.minimum'] = h_maxmin2('min')


def h_reduce(ip, st, a, kw, node):
    """functools.reduce(f, seq[, init]) with a known-length sequence is folded."""
    f, seq = a[0], a[1]
    init = a[2] if len(a) > 2 else None
    if isinstance(seq, Tup) and len(seq) <= 8:
        items = list(seq.items)
        acc = init if init is not None else (items.pop(0) if items else NONE)
        for it in items:
            acc = ip.call_value(f, [acc, it], {}, st, node)
        return acc
    return app('functools.reduce', P(f), P(seq) if not isinstance(seq, Tup) else seq, *([P(init)] if init is not None else []))


HANDLERS['functools.reduce'] = h_reduce


def _as_seq(v):
    if isinstance(v, Tup):
        return list(v.items)
    if isinstance(v, Const) and isinstance(v.value, str) and len(v.value) <= 16:
        return [Const(ch) for ch in v.value]
    return None


def h_zip(ip, st, a, kw, node):
    seqs = [_as_seq(x) for x in a]
    if seqs and all(s is not None for s in seqs):
        n = min(len(s) for s in seqs)
        return Tup([Tup([s[i] for s in seqs]) for i in range(n)], 'list')
    known = [s for s in seqs if s is not None]
    if known and all(isinstance(x, (Poly, Tup)) or _as_seq(x) is not None for x in a):
        # zipping with a sequence of known length n: the others are taken to have (at least) n items
        n = min(len(s) for s in known)
        if n <= 8:
            return Tup([Tup([s[i] if s is not None else nf.index(P(x), Poly.const(i)) for s, x in zip(seqs, a)])
                        for i in range(n)], 'list')
    return app('zip', *[x if isinstance(x, (Poly, Tup, Const)) else P(x) for x in a])


def h_enumerate(ip, st, a, kw, node):
    seq = _as_seq(a[0]) if a else None
    start = a[1] if len(a) > 1 else kw.get('start', Poly.const(0))
    if seq is not None and isinstance(start, Poly) and start.const_value() is not None:
        return Tup([Tup([start + i, x]) for i, x in enumerate(seq)], 'list')
    return app('enumerate', *[x if isinstance(x, (Poly, Tup, Const)) else P(x) for x in a], **kw)


def h_sum_builtin(ip, st, a, kw, node):
    seq = a[0] if a else None
    if isinstance(seq, Tup) and all(isinstance(i, Poly) for i in seq.items):
        tot = a[1] if len(a) > 1 and isinstance(a[1], Poly) else Poly.const(0)
        for i in seq.items:
            tot = tot + i
        return tot
    return app('sum', *[x if isinstance(x, (Poly, Tup, Const)) else P(x) for x in a], **kw)



HANDLERS['numpy.sum'] = h_sum
HANDLERS['numpy.meshgrid'] = h_meshgrid
HANDLERS['numpy.clip'] = h_clip
for _n in ('zeros', 'ones', 'empty'):
    HANDLERS['numpy.' + _n] = h_zeros(_n)
for _n in ('zeros_like', 'ones_like', 'empty_like', 'outer', 'einsum', 'arange', 'linspace',
           'where', 'nonzero', 'any', 'all', 'prod', 'diff', 'count_nonzero', 'hypot', 'tile',
           'repeat', 'kron', 'append', 'hstack', 'vstack', 'concatenate', 'delete', 'insert',
           'polyval', 'polyder', 'isscalar', 'iscomplexobj', 'can_cast', 'array_equal', 'sort',
           'trapz', 'intersect1d', 'flip', 'rot90', 'squeeze', 'ravel', 'reshape', 'transpose',
           'putmask', 'copyto', 'place', 'ndenumerate', 'errstate', 'finfo', 'logical_or',
           'logical_and', 'nanmax', 'nanmin', 'choose', 'ediff1d', 'dtype', 'genfromtxt',
           'fft.fft2', 'fft.ifft2', 'fft.fftshift', 'fft.ifftshift', 'fft.fftfreq', 'fft.fft',
           'linalg.lstsq', 'linalg.pinv', 'linalg.norm', 'random.default_rng', 'random.uniform',
           'random.rand', 'random.normal', 'random.seed', 'random.randn', 'random.poisson'):
    HANDLERS['numpy.' + _n] = h_generic(_n)
def h_add_reduce(ip, st, args, kw, node):
    # np.add.reduce(x, axis) is np.sum(x, axis) - but its default axis is 0, not None
    if 'axis' not in kw and len(args) < 2:
        kw = dict(kw, axis=Poly.const(0))
    return h_sum(ip, st, args, kw, node)


HANDLERS['numpy.add.reduce'] = h_add_reduce
HANDLERS['numpy.multiply.outer'] = h_generic('outer')
HANDLERS['numpy.multiply.reduce'] = h_generic('prod')


def h_indices(ip, st, args, kw, node):
    # np.indices((a, b)) is np.mgrid[0:a, 0:b]
    if len(args) == 1 and not kw and isinstance(args[0], Tup) and 1 <= len(args[0]) <= 3 and all(isinstance(x, Poly) for x in args[0].items):
        sls = [Slice(Poly.const(0), x) for x in args[0].items]
        return Tup([app('mgrid', *sls, Poly.const(k)) for k in range(len(sls))])
    return h_generic('numpy.indices')(ip, st, args, kw, node)


HANDLERS['numpy.indices'] = h_indices
HANDLERS['len'] = h_len
HANDLERS['tuple'] = h_tuple('tuple')
HANDLERS['list'] = h_tuple('list')
HANDLERS['int'] = h_int
HANDLERS['float'] = h_float
HANDLERS['complex'] = h_float
def h_bool(ip, st, a, kw, node):
    x = a[0] if a else Const(False)
    if isinstance(x, Const) and isinstance(x.value, bool):
        return x
    if x == NONE:
        return Const(False)
    if isinstance(x, Poly) and x.const_value() is not None:
        return Const(x.const_value() != 0)
    return app('bool', P(x))


HANDLERS['bool'] = h_bool
HANDLERS['abs'] = h_unary('abs')
HANDLERS['round'] = lambda ip, st, a, kw, node: app('round', *[P(x) for x in a])
HANDLERS['max'] = h_builtin_minmax('max')
HANDLERS['min'] = h_builtin_minmax('min')
HANDLERS['slice'] = h_slice
HANDLERS['isinstance'] = h_isinstance
HANDLERS['math.factorial'] = h_generic('factorial')


def h_comb(ip, st, a, kw, node):
    """C(n, k) = n! / (k! (n-k)!)"""
    n, k = P(a[0]), P(a[1])
    f = lambda x: app('factorial', x)
    return f(n) / (f(k) * f(n - k))


HANDLERS['math.comb'] = h_comb
HANDLERS['scipy.special.comb'] = h_comb
HANDLERS['scipy.special.factorial'] = h_generic('factorial')
for _n in ('range', 'enumerate', 'zip', 'sorted', 'sum', 'any', 'all', 'hash', 'id', 'type',
           'str', 'repr', 'print', 'getattr', 'hasattr', 'reversed', 'map', 'filter', 'set',
           'dict', 'iter', 'next', 'super'):
    HANDLERS[_n] = h_generic(_n)

# numpy module-level constants
NP_CONSTS = {
    'numpy.pi': nf.PI, 'numpy.inf': nf.sym('inf'), 'numpy.newaxis': NONE, 'numpy.nan': nf.sym('nan'),
    'numpy.float64': Const('float64'), 'numpy.complex128': Const('complex128'),
    'numpy.float32': Const('float32'), 'numpy.uint64': Const('uint64'), 'numpy.int16': Const('int16'),
    'numpy.uint8': Const('uint8'), 'numpy.ndarray': Const('ndarray'), 'sys.maxsize': nf.sym('sys.maxsize'),
}

# array methods: name -> ('pure'|'mutate')
ARRAY_METHODS_PURE = {
    'ravel', 'reshape', 'astype', 'copy', 'sum', 'min', 'max', 'any', 'all', 'dot', 'conj',
    'conjugate', 'flatten', 'transpose', 'squeeze', 'mean', 'std', 'nonzero', 'tolist', 'item',
    'lower', 'upper', 'strip', 'keys', 'values', 'items', 'get', 'split', 'join', 'format',
    'startswith', 'endswith', 'index', 'count',
}
ARRAY_METHODS_MUTATE = {
    'fill', 'sort', 'resize', 'put', 'itemset', 'append', 'extend', 'pop', 'insert', 'clear',
    'update', 'remove', 'reverse', 'setdefault', 'add', 'discard', 'setflags', 'partition',
}

def _grid_plane(v, ndim):
    """a plane of np.indices / np.mgrid over ``ndim`` axes, possibly shifted and scaled by scalars of the dimensions"""
    if not isinstance(v, Poly) or not v.terms:
        return False
    seen = False
    for m, _ in v.terms:
        g = [a for a, _ in m if a[0] == 'app' and a[1] == 'mgrid' and len(a[2]) == ndim + 1]
        rest = [a for a, _ in m if a not in g]
        if len(g) > 1 or not _dimlike(Poly(((tuple((a, e) for a, e in m if a in rest), Fraction(1)),))):
            return False
        seen = seen or bool(g)
    return seen


def _dimlike(v):
    """an expression in array dimensions and numbers only (x.shape[0], len(x), x.size, x.ndim): a scalar"""
    def dim(a):
        if a[0] == 'idx':
            return a[1][0] == 'attr' and a[1][2] == 'shape'
        if a[0] == 'attr':
            return a[2] in ('size', 'ndim')
        if a[0] == 'app':
            return a[1] == 'len' or a[1] in ('floor', 'ceil', 'trunc', 'abs', 'max', 'min') and \
                all(isinstance(x, Poly) and _dimlike(x) for x in a[2])
        return False
    return all(dim(a) for m, _ in v.terms for a, _ in m)


def _arrayish(v):
    """a known array (not a scalar) by construction"""
    if not isinstance(v, Poly) or not v.terms:
        return False
    for m, _ in v.terms:
        if not any(a[0] == 'app' and a[1] in ('ones', 'zeros', 'm:ravel', 'ravel', 'arange', 'linspace', 'm:flatten')
                   for a, _ in m):
            return False
    return True


def h_einsum(ip, st, args, kw, node):
    """Row / column scalings of a matrix given as a list of row arrays are carried out."""
    if len(args) == 3 and isinstance(args[0], Const) and isinstance(args[1], Tup) and not kw \
            and all(isinstance(r, Poly) for r in args[1].items):
        spec, rows, b = args[0].value.replace(' ', ''), args[1].items, args[2]
        if spec == 'ij,i->ij' and isinstance(b, Tup) and len(b) == len(rows) and all(isinstance(x, (Poly, Const)) for x in b.items):
            return Tup([r * P(x) for r, x in zip(rows, b.items)], 'vec')
        if spec == 'ij,j->ij' and isinstance(b, Poly) and all(_arrayish(r) for r in rows):
            return Tup([r * b for r in rows], 'vec')
    if args and not isinstance(args[0], Const) and len(args) >= 2 and not kw:
        # operand / sublist form: einsum(a, [0, 1, 2], b, [0], [1, 2]) is einsum('ijk,i->jk', a, b)
        ops, subs, rest = [], [], list(args)
        def letters(t):
            if isinstance(t, Tup) and all(isinstance(x, Poly) and x.const_value() is not None and 0 <= x.const_value() < 17
                                          for x in t.items):
                return ''.join(chr(ord('i') + int(x.const_value())) for x in t.items)
            return None
        while len(rest) >= 2 and letters(rest[1]) is not None and not (isinstance(rest[0], Tup) and letters(rest[0]) is not None
                                                                       and len(rest) == 1):
            ops.append(rest[0])
            subs.append(letters(rest[1]))
            rest = rest[2:]
        out = None
        if len(rest) == 1 and letters(rest[0]) is not None:
            out, rest = letters(rest[0]), []
        if ops and not rest:
            spec = ','.join(subs) + ('->' + out if out is not None else '')
            return h_generic('einsum')(ip, st, [Const(spec)] + ops, kw, node)
    return h_generic('einsum')(ip, st, args, kw, node)


def h_expand_dims(ip, st, args, kw, node):
    # np.expand_dims(x, 0) is x[np.newaxis, ...]
    ax = kw.get('axis', args[1] if len(args) > 1 else None)
    if args and isinstance(args[0], Poly) and isinstance(ax, Poly) and ax.const_value() == 0:
        return nf.index(args[0], Tup([NONE, nf.ELLIPSIS]))
    return h_generic('numpy.expand_dims')(ip, st, args, kw, node)


HANDLERS['numpy.expand_dims'] = h_expand_dims


def h_arctan2(ip, st, args, kw, node):
    # arctan2(z.imag, z.real) is the argument of z
    if len(args) == 2 and not kw and all(isinstance(a, Poly) for a in args):
        ya, xa = args[0].single_atom(), args[1].single_atom()
        if ya is not None and xa is not None and ya[0] == 'app' and xa[0] == 'app' and ya[1] == 'imag' and xa[1] == 'real' \
                and ya[2] and xa[2] and ya[2][0] == xa[2][0]:
            return unary('angle', ya[2][0])
    return h_generic('numpy.arctan2')(ip, st, args, kw, node)


HANDLERS['numpy.arctan2'] = h_arctan2


def h_where(ip, st, args, kw, node):
    """np.where(cond) with one argument is np.nonzero(cond)."""
    if len(args) == 1 and not kw:
        return app('nonzero', P(args[0]))
    return h_generic('where')(ip, st, args, kw, node)


def h_flatnonzero(ip, st, args, kw, node):
    return nf.index(app('nonzero', app('m:ravel', P(args[0]))), Poly.const(0))


HANDLERS['numpy.multiply.outer'] = h_generic('outer')
def _one_dim(v):
    """an expression in 1-D sample vectors (fftfreq, arange, linspace) and scalars of the dimensions"""
    if not isinstance(v, Poly) or not v.terms:
        return False
    for m, _ in v.terms:
        vec = [a for a, _ in m if a[0] == 'app' and a[1] in ('fft.fftfreq', 'fft.rfftfreq', 'arange', 'linspace')]
        rest = tuple((a, e) for a, e in m if a not in vec)
        if len({a for a in vec}) != 1 or not _dimlike(Poly(((rest, Fraction(1)),))):
            return False
    return True


def h_outer_sum(sign):
    def h(ip, st, args, kw, node):
        # np.add.outer(a, b)[i, j] is a[i] + b[j]: for vectors a[:, None] + b
        if len(args) == 2 and not kw and _one_dim(args[0]) and _one_dim(args[1]):
            key = Tup([Slice(NONE, NONE), NONE])
            vecs = {a for m, _ in args[0].terms for a, _ in m
                    if a[0] == 'app' and a[1] in ('fft.fftfreq', 'fft.rfftfreq', 'arange', 'linspace')}
            col = nf.subst_value(args[0], {a: nf.index(Poly.atom(a), key) for a in vecs})
            return col + args[1] if sign > 0 else col - args[1]
        return app('add_outer' if sign > 0 else 'sub_outer', *[P(a) for a in args], **kw)
    return h


def h_ix(ip, st, args, kw, node):
    """np.ix_(a, b): the open mesh (a[:, None], b[None, :])"""
    if 1 <= len(args) <= 3 and not kw and all(isinstance(a, Poly) for a in args):
        n = len(args)
        full = Slice(NONE, NONE)
        return Tup([nf.index(a, Tup([full if j == i else NONE for j in range(n)])) if n > 1 else a for i, a in enumerate(args)])
    return app('numpy.ix_', *[a if isinstance(a, (Poly, Tup, Const)) else P(a) for a in args], **kw)


def h_norm(ip, st, args, kw, node):
    """np.linalg.norm of a short vector of dimensions: the root of the sum of their squares"""
    x = args[0] if args else None
    if isinstance(x, Poly) and hasattr(ip, 'shape_items'):
        x = ip.shape_items(x)
    if isinstance(x, Tup) and x.items and len(args) == 1 and not kw and all(isinstance(i, Poly) and _dimlike(i) for i in x.items):
        tot = Poly.const(0)
        for i in x.items:
            tot = tot + i * i
        return tot.pow(Fraction(1, 2))
    return app('linalg.norm', *[a if isinstance(a, (Poly, Tup, Const)) else P(a) for a in args], **kw)


HANDLERS['numpy.ix_'] = h_ix
HANDLERS['numpy.linalg.norm'] = h_norm
HANDLERS['numpy.add.outer'] = h_outer_sum(1)
HANDLERS['numpy.subtract.outer'] = h_outer_sum(-1)
HANDLERS['numpy.ravel'] = lambda ip, st, a, kw, node: app('m:ravel', P(a[0]))
def _returned_tuple_len(ip, v):
    """number of items when `v` is the result of a package function whose every return is a tuple display of that length"""
    a = v.single_atom() if isinstance(v, Poly) else None
    if a is None or a[0] != 'app' or not str(a[1]).startswith('call:') or not ip.repo.has_func(a[1][5:]):
        return None
    import ast as _ast
    fi = ip.repo.func(a[1][5:])
    lens = {len(r.value.elts) if isinstance(r.value, _ast.Tuple) and not any(isinstance(e, _ast.Starred) for e in r.value.elts) else None
            for r in _ast.walk(fi.node) if isinstance(r, _ast.Return)}
    return lens.pop() if len(lens) == 1 and None not in lens else None


def h_reshape(ip, st, a, kw, node):
    x = a[0]
    shp = a[1] if len(a) == 2 else None
    if isinstance(shp, Tup) and len(shp) == 2 and all(isinstance(d, Poly) and d.const_value() is not None and d.const_value() > 0
                                                      for d in shp.items) and not kw:
        r, c = (int(d.const_value()) for d in shp.items)
        items = list(x.items) if isinstance(x, Tup) and all(isinstance(i, Poly) for i in x.items) else None
        if items is None and r * c <= 16 and _returned_tuple_len(ip, x) == r * c:
            items = [nf.index(x, Poly.const(k)) for k in range(r * c)]
        if items is not None and len(items) == r * c and r * c <= 16:
            # a short sequence of known length laid out in rows
            return Tup([Tup(items[i * c:(i + 1) * c], 'vec') for i in range(r)], 'vec')
    return app('m:reshape', P(x), *[v if isinstance(v, (Poly, Tup, Const, Slice)) else P(v) for v in a[1:]])


HANDLERS['numpy.reshape'] = h_reshape
for _n, _op in (('greater', 'gt'), ('greater_equal', 'ge'), ('less', 'lt'), ('less_equal', 'le'), ('equal', 'eq'),
                ('not_equal', 'ne')):
    HANDLERS['numpy.' + _n] = (lambda op: (lambda ip, st, a, kw, node: ip.compare(op, a[0], a[1])))(_op)
def h_concatenate(ip, st, a, kw, node):
    """concatenate((ravel(x), ravel(y))) is append(x, y)"""
    seq = a[0] if a else None
    if isinstance(seq, Tup) and len(seq) == 2 and not kw and len(a) == 1:
        rs = []
        for it in seq.items:
            ia = it.single_atom() if isinstance(it, Poly) else None
            rs.append(ia[2][0] if ia is not None and ia[0] == 'app' and ia[1] == 'm:ravel' and len(ia[2]) == 1 else None)
        if all(r is not None for r in rs):
            return app('append', rs[0], rs[1])
    if isinstance(seq, Tup) and len(seq) == 2 and len(a) == 1 and set(kw) == {'axis'} and kw['axis'] == NONE \
            and all(isinstance(i, Poly) for i in seq.items):
        return app('append', seq.items[0], seq.items[1])        # concatenate((x, y), axis=None) flattens both: append(x, y)
    return h_generic('concatenate')(ip, st, a, kw, node)


HANDLERS['numpy.concatenate'] = h_concatenate
def h_hypot(ip, st, a, kw, node):
    """hypot(x, y) = sqrt(x**2 + y**2)"""
    r = lift(lambda x, y: (P(x) ** 2 + P(y) ** 2).pow(Fraction(1, 2)), a[0], a[1])
    return r if r is not None else app('hypot', P(a[0]), P(a[1]))


HANDLERS['numpy.hypot'] = h_hypot
HANDLERS['math.hypot'] = h_hypot
HANDLERS['numpy.where'] = h_where
HANDLERS['numpy.flatnonzero'] = h_flatnonzero
HANDLERS['numpy.einsum'] = h_einsum
# overrides of the generic entries above
HANDLERS['zip'] = h_zip
HANDLERS['enumerate'] = h_enumerate
HANDLERS['sum'] = h_sum_builtin


def h_stack(ip, st, args, kw, node):
    """np.stack / np.vstack of a known sequence of rows along the first axis is the array of those rows"""
    x = args[0] if args else NONE
    ax = kw.get('axis', args[1] if len(args) > 1 else None)
    first = ax is None or ax == NONE or (isinstance(ax, Poly) and ax.const_value() == 0)
    if isinstance(x, Tup) and first and 'out' not in kw:
        return Tup(x.items, 'vec')
    extra = {'axis': ax} if ax is not None and ax != NONE else {}
    return app('stack', P(x), **extra)


HANDLERS['numpy.stack'] = h_stack


def h_partial(ip, st, args, kw, node):
    """functools.partial(f, *args, **kw): a callable value the interpreter can call later"""
    if not args:
        return app('functools.partial')
    pos, kw = list(args[1:]), dict(kw)
    for x in list(pos):
        xa = x.single_atom() if isinstance(x, Poly) else None
        if xa is not None and xa[0] == 'app' and xa[1] == 'starstar':
            pos.remove(x)               # partial(f, **mapping): an unknown mapping of keyword arguments, not a positional one
            kw[None] = xa[2][0]
    return Const(('partial', args[0], tuple(pos), tuple(sorted(kw.items(), key=lambda t: str(t[0])))))


HANDLERS['functools.partial'] = h_partial


def h_attrgetter(ip, st, args, kw, node):
    """operator.attrgetter('name'): a callable that reads that attribute"""
    if len(args) == 1 and not kw and isinstance(args[0], Const) and isinstance(args[0].value, str) and '.' not in args[0].value:
        return Const(('attrgetter', args[0].value))
    return app('operator.attrgetter', *args)


def h_itemgetter(ip, st, args, kw, node):
    """operator.itemgetter(k): a callable that reads that item"""
    if len(args) == 1 and not kw and isinstance(args[0], (Poly, Const)):
        return Const(('itemgetter', args[0]))
    return app('operator.itemgetter', *args)


def h_chain_from_iterable(ip, st, args, kw, node):
    """itertools.chain.from_iterable(seq_of_seqs): the items of the inner sequences in order"""
    if len(args) == 1 and isinstance(args[0], Tup) and all(isinstance(x, Tup) for x in args[0].items):
        return Tup([i for x in args[0].items for i in x.items], 'list')
    return app('itertools.chain.from_iterable', *[a if isinstance(a, (Poly, Tup, Const)) else P(a) for a in args])


def h_chain(ip, st, args, kw, node):
    if args and all(isinstance(x, Tup) for x in args):
        return Tup([i for x in args for i in x.items], 'list')
    return app('itertools.chain', *[a if isinstance(a, (Poly, Tup, Const)) else P(a) for a in args])


HANDLERS['itertools.chain.from_iterable'] = h_chain_from_iterable
HANDLERS['itertools.chain'] = h_chain
HANDLERS['operator.attrgetter'] = h_attrgetter
HANDLERS['operator.itemgetter'] = h_itemgetter


def _h_anyall(name):
    def h(ip, st, a, kw, node):
        x = a[0] if a else Tup([])
        if isinstance(x, Tup) and 1 <= len(x) <= 8 and not kw and all(isinstance(i, (Poly, Const)) for i in x.items):
            # any([p, q]) is p or q ; all([p, q]) is p and q
            if all(isinstance(i, Const) and isinstance(i.value, bool) for i in x.items):
                vals = [i.value for i in x.items]
                return Const(any(vals) if name == 'any' else all(vals))
            return app('or' if name == 'any' else 'and', *[P(i) for i in x.items])
        return app(name, P(x), **kw)
    return h


HANDLERS['any'] = _h_anyall('any')
HANDLERS['all'] = _h_anyall('all')


def h_repeat(ip, st, args, kw, node):
    x = args[0] if args else NONE
    reps = args[1] if len(args) > 1 else kw.get('repeats')
    if isinstance(x, Tup) and isinstance(reps, Poly) and reps.const_value() is not None and 'axis' not in kw and len(args) <= 2 \
            and all(isinstance(i, (Poly, Const)) for i in x.items) and 0 < int(reps.const_value()) * len(x) <= 16:
        out = []
        for i in x.items:
            out += [i] * int(reps.const_value())
        return Tup(out, 'vec')
    return app('repeat', *[a if isinstance(a, (Poly, Tup, Const)) else P(a) for a in args], **kw)


HANDLERS['numpy.repeat'] = h_repeat
for _op, _nm in (('add', 'add'), ('sub', 'sub'), ('mul', 'mul'), ('truediv', 'div'), ('floordiv', 'floordiv'), ('pow', 'pow'),
                 ('mod', 'mod')):
    HANDLERS['operator.' + _op] = (lambda nm: (lambda ip, st, a, kw, node: arith(nm, a[0], a[1])))(_nm)
for _op in ('lt', 'le', 'gt', 'ge', 'eq', 'ne'):
    # operator.gt(a, b) is a > b
    HANDLERS['operator.' + _op] = (lambda nm: (lambda ip, st, a, kw, node: ip.compare(nm, a[0], a[1])))(_op)
HANDLERS['operator.neg'] = lambda ip, st, a, kw, node: arith('mul', Poly.const(-1), a[0])


def _h_writes_first(name):
    """np.copyto(dst, src), np.putmask(a, mask, values), np.place(a, mask, values), np.fill_diagonal(a, v): procedures
    that write into their first argument - executed as the subscript assignment they stand for (a[mask] = values,
    dst[...] = src), so that the written array carries the new value from here on"""
    import ast as _ast

    def h(ip, st, args, kw, node):
        dst = args[0] if args else kw.get('dst', kw.get('a'))
        if dst is None:
            return NONE
        try:
            if name in ('putmask', 'place') and len(node.args) >= 3 and not node.keywords:
                tgt = _ast.Subscript(value=node.args[0], slice=node.args[1], ctx=_ast.Store())
                _ast.copy_location(tgt, node)
                ip.assign(tgt, args[2], st, node)
                return NONE
            if name == 'copyto' and len(node.args) >= 2 and not node.keywords:
                tgt = _ast.Subscript(value=node.args[0], slice=_ast.Constant(value=Ellipsis), ctx=_ast.Store())
                _ast.copy_location(tgt, node)
                _ast.copy_location(tgt.slice, node)
                ip.assign(tgt, args[1], st, node)
                return NONE
        except Exception:
            pass
        val = args[-1] if len(args) > 1 else kw.get('src', kw.get('values'))
        ip.log_write(st, f'numpy.{name}', dst, node, value=val)
        return NONE
    return h


for _n in ('copyto', 'putmask', 'place', 'fill_diagonal'):
    HANDLERS['numpy.' + _n] = _h_writes_first(_n)


def _h_fftn(name2):
    """np.fft.fftn(x, axes=(-2, -1), ...) / axes=(0, 1) of a plane is np.fft.fft2(x, ...)"""
    def h(ip, st, args, kw, node):
        axes = kw.get('axes', args[2] if len(args) > 2 else None)
        two = isinstance(axes, Tup) and len(axes) == 2 and \
            [i.const_value() if isinstance(i, Poly) else None for i in axes.items] in ([-2, -1], [0, 1])
        if two and (len(args) < 2 or args[1] == NONE):
            kw2 = {k: v for k, v in kw.items() if k != 'axes'}
            return h_generic(name2)(ip, st, args[:1], kw2, node)
        return h_generic(name2.replace('2', 'n'))(ip, st, args, kw, node)
    return h


HANDLERS['numpy.fft.fftn'] = _h_fftn('fft.fft2')
HANDLERS['numpy.fft.ifftn'] = _h_fftn('fft.ifft2')


def _h_atleast(n):
    """np.atleast_1d(x): x itself when x has at least that many axes (or nothing is known about them); a scalar known to
    be 0-d becomes x[..., newaxis]"""
    def h(ip, st, args, kw, node):
        x = args[0]
        try:
            nd = ip.apply_facts(nf.attr(P(x), 'ndim'))
        except Exception:
            nd = None
        if n == 1 and isinstance(nd, Poly) and nd.const_value() == 0 and isinstance(x, Poly):
            return nf.index(x, Tup([nf.ELLIPSIS, NONE]))
        return x
    return h


HANDLERS['numpy.atleast_1d'] = _h_atleast(1)
