"""Interprocedural effect and alias analysis (engine E) on top of the abstract
interpreter's event log.

For every function a *summary* is computed: which parameters (including
``self``) may be written (element store, in-place operator on an array,
``out=``, mutating method, attribute store on a parameter object), under which
path conditions, and which parameters the return value may alias.  Summaries
are propagated through resolved internal calls to a fixed point (recursion is
cut; the package's call graph is almost acyclic).
"""
import ast
import re

from . import nf
from .nf import Poly, Tup, Const
from .interp import Interp
from .model import AnalysisError
from .rules import alias_root, root_chain, is_app, fmt
from .state import PathLimit

# parameter-name type table (DESIGN section 2, iv), confirmed by reading every use
PARAM_TYPES = {
    '*': {'wavefront': 'wavefront.Wavefront', 'plane': 'plane.Plane', 'field': 'field.Field'},
    'radiometry': {'s1': 'radiometry.Spectrum', 's2': 'radiometry.Spectrum', 'other': 'radiometry.Spectrum'},
    'detector': {'qe': 'radiometry.Spectrum', 'qe_red': 'radiometry.Spectrum',
                 'qe_green': 'radiometry.Spectrum', 'qe_blue': 'radiometry.Spectrum'},
}

SCALAR_DOC = re.compile(r'^\s*(float|int|bool|str|scalar|number)\b', re.I)
ARRAY_DOC = re.compile(r'(array_like|ndarray|array)', re.I)


def param_types(repo, func):
    out = {}
    names = {p[0] for p in func.params()}
    for scope in ('*', func.module.name):
        for n, ck in PARAM_TYPES.get(scope, {}).items():
            if n in names:
                mod, _, cn = ck.partition('.')
                if mod in repo.modules and cn in repo.modules[mod].classes:
                    out[('sym', n)] = repo.modules[mod].classes[cn]
    return out


def doc_param_kinds(func):
    """numpydoc 'name : type' -> 'scalar' | 'array' | None."""
    doc = ast.get_docstring(func.node) or ''
    if func.cls is not None and func.name == '__init__':
        doc = (ast.get_docstring(func.cls.node) or '') + '\n' + doc
    kinds = {}
    for m in re.finditer(r'^\s*(\w+(?:\s*,\s*\w+)*)\s*:\s*(.+)$', doc, re.M):
        for name in re.split(r'\s*,\s*', m.group(1)):
            t = m.group(2)
            if ARRAY_DOC.search(t):
                kinds[name] = 'array'
            elif SCALAR_DOC.match(t):
                kinds[name] = 'scalar'
    return kinds


class Write:
    __slots__ = ('param', 'how', 'loc', 'via', 'conds', 'detail', 'func')

    def __init__(self, param, how, loc, via, conds, detail, func):
        self.param, self.how, self.loc, self.via = param, how, loc, via
        self.conds, self.detail, self.func = conds, detail, func

    def cond_has(self, name, value):
        """path condition `name` (a bare parameter used as a test) had this truth value"""
        for c, pol, _ in self.conds:
            if isinstance(c, Poly) and c.single_atom() == ('sym', name) and pol == value:
                return True
        return False

    def __repr__(self):
        return f'<Write {self.param} {self.how} {self.loc} via {self.via}>'


class Summary:
    def __init__(self, func):
        self.func = func
        self.writes = []          # Write
        self.ret_alias = set()    # parameter names the result may alias
        self.global_writes = []   # (name, how, loc)
        self.cached_writes = []   # (callee key, how, loc)
        self.rng = []             # (kind, detail, loc)  see E3
        self.calls = []           # resolved internal callee keys
        self.failed = None


class Effects:
    def __init__(self, repo):
        self.repo = repo
        self.memo = {}
        self.active = set()

    def paths(self, func, config=None):
        ip = Interp(self.repo, types=param_types(self.repo, func), max_paths=1024)
        return ip.run(func, config=config)

    def owners(self, func, v, depth=0, loops=None):
        """Parameter names of ``func`` that value ``v`` may alias."""
        if isinstance(v, Tup):
            s = set()
            for i in v.items:
                s |= self.owners(func, i, depth, loops)
            return s
        root, steps = root_chain(v)
        if root is None:
            return set()
        if root[0] == 'loop' and loops and depth < 6:
            # a loop-carried variable aliases whatever it held before the loop or is re-bound to in it
            s = set()
            for lp in loops:
                for n, phi in lp['phi'].items():
                    if phi.single_atom()[1] == root[1]:
                        cands = [lp['pre'].get(n)] + [e.get(n) for e in lp['ends']]
                        for c in cands:
                            if c is not None and not (isinstance(c, Poly) and c.single_atom() is not None
                                                      and c.single_atom()[0] == 'loop' and c.single_atom()[1] == root[1]):
                                s |= self.owners(func, c, depth + 1, loops)
            return s
        if root[0] == 'sym':
            names = {p[0] for p in func.params()}
            return {root[1]} if root[1] in names else set()
        if is_app(root) and root[1].startswith('call:') and depth < 4:
            key = root[1][5:]
            if self.repo.has_func(key):
                g = self.repo.func(key)
                sg = self.summary(g)
                b = {k.items[0].value: k.items[1] for k in root[2]}
                s = set()
                for p in sg.ret_alias:
                    if p in b:
                        s |= self.owners(func, b[p], depth + 1)
                return s
        return set()

    def summary(self, func, config=None):
        key = (func.key + ('#setter' if func.is_setter else ''), tuple(sorted((config or {}).items(), key=str)))
        if key in self.memo:
            return self.memo[key]
        s = Summary(func)
        if key in self.active:
            return s
        self.active.add(key)
        try:
            try:
                paths = self.paths(func, config)
            except PathLimit as e:
                s.failed = str(e)
                paths = []
            kinds = doc_param_kinds(func)
            seen = set()
            for p in paths:
                if p.status == 'return' and p.ret is not None:
                    s.ret_alias |= self.owners(func, p.ret, loops=p.state.loops)
                for e in p.events:
                    if e.depth != 0:
                        continue
                    if e.kind == 'global':
                        for n in e.data['names']:
                            s.global_writes.append((n, 'global statement', e.loc()))
                    if e.kind == 'write':
                        self._write_event(func, s, p, e, kinds, seen)
                    elif e.kind == 'call':
                        self._call_event(func, s, p, e, seen)
            self.memo[key] = s
            return s
        finally:
            self.active.discard(key)

    # ------------------------------------------------------------------
    def _add(self, s, seen, param, how, loc, via, conds, detail, func):
        k = (param, how, loc, via, tuple((nf.vkey(c), pol) for c, pol, _ in conds))
        if k in seen:
            return
        seen.add(k)
        s.writes.append(Write(param, how, loc, via, list(conds), detail, func))

    def _write_event(self, func, s, p, e, kinds, seen):
        how = e.data['how']
        tgt = e.data['target']
        if how == 'global':
            s.global_writes.append((fmt(tgt), 'assignment to a global name', e.loc()))
            return
        root, steps = root_chain(tgt)
        if root is not None and root[0] == 'sym' and '.' in root[1] and not root[1].startswith('lentil.'):
            s.global_writes.append((root[1], how, e.loc()))
        if root is not None and is_app(root) and root[1].startswith('call:'):
            ck = root[1][5:]
            if self.repo.has_func(ck) and self.repo.func(ck).is_cached:
                s.cached_writes.append((ck, how, e.loc()))
        lps = p.state.loops
        if how == 'augassign':
            # in-place only for arrays/lists: need evidence that the target is not a python scalar
            own = self.owners(func, tgt, loops=lps)
            var = e.node.target.id if isinstance(getattr(e.node, 'target', None), ast.Name) else None
            for o in own:
                direct = isinstance(tgt, Poly) and tgt.single_atom() == ('sym', o)
                if direct and kinds.get(o) != 'array' and not _array_evidence(func, o):
                    continue
                if not direct and var is not None and _scalar_chain(tgt) and not _array_evidence(func, var):
                    # `n = int(x.shape[0]); n -= 1` rebinds a python scalar
                    continue
                self._add(s, seen, o, 'in-place operator', e.loc(), None, p.conds, fmt(tgt), func.key)
            return
        if how == 'attrstore':
            own = self.owners(func, tgt, loops=lps)
            for o in own:
                self._add(s, seen, o, f'attribute store .{e.data.get("attr")}', e.loc(), None, p.conds,
                          fmt(tgt), func.key)
            return
        own = self.owners(func, tgt, loops=lps)
        for o in own:
            self._add(s, seen, o, how, e.loc(), None, p.conds, fmt(tgt), func.key)

    def _call_event(self, func, s, p, e, seen):
        key = e.data.get('callee', '')
        if key.startswith('ext:'):
            self._rng_event(func, s, p, e, key[4:])
            # library routines told to work in place on their input: overwrite_x=True (scipy.fft, scipy.linalg),
            # overwrite_a / overwrite_b / overwrite_input, check_finite-less in-place solvers
            kws = e.data.get('kwargs') or {}
            flags = [k for k, v in kws.items() if str(k).startswith('overwrite') and not (isinstance(v, nf.Const) and v.value is False)]
            if flags and e.data.get('args'):
                for o in self.owners(func, e.data['args'][0], loops=p.state.loops):
                    self._add(s, seen, o, f'{key[4:]}(..., {flags[0]}=True)', e.loc(), 'library routine allowed to overwrite its input',
                              list(p.conds), f'{key[4:]} with {flags[0]}', func.key)
            return
        if key.startswith('method:'):
            self._rng_method(func, s, p, e, key[7:])
            return
        if not self.repo.has_func(key.replace('#setter', '')) and '#' not in key:
            return
        if e.data.get('via') == 'setter':
            g = self.repo.modules[key.split('.')[0]].functions.get(key.split('.', 1)[1] + '#setter')
            if g is None:
                return
        else:
            if not self.repo.has_func(key):
                return
            g = self.repo.func(key)
        s.calls.append(g.key)
        sg = self.summary(g)
        b = e.data.get('bound') or {}
        for w in sg.writes:
            if w.param not in b:
                continue
            if e.data.get('new') and w.param == g.params()[0][0]:
                continue     # constructor writing its own fresh object
            for o in self.owners(func, b[w.param], loops=p.state.loops):
                self._add(s, seen, o, w.how, e.loc(), f'{g.key} ({w.loc})' + (f' via {w.via}' if w.via else ''),
                          list(p.conds), w.detail, w.func)
        for gw in sg.global_writes:
            pass   # reported at the callee
        for r in sg.rng:
            if r[0] in ('global-rng', 'nondet'):
                s.rng.append(('reaches:' + r[0], f'{g.key}: {r[1]}', r[2]))

    GLOBAL_RNG_OK = {'default_rng', 'Generator', 'SeedSequence', 'RandomState', 'PCG64', 'BitGenerator'}

    # process-wide settings: a function that changes one leaves state behind for every later call
    PROCESS_STATE_SETTERS = {'numpy.seterr', 'numpy.seterrcall', 'numpy.set_printoptions', 'numpy.setbufsize',
                             'numpy.set_string_function', 'warnings.simplefilter', 'warnings.filterwarnings',
                             'warnings.resetwarnings', 'sys.setrecursionlimit', 'locale.setlocale', 'os.putenv',
                             'os.chdir', 'os.umask', 'numpy.random.set_state', 'scipy.fft.set_global_backend',
                             'scipy.fft.set_workers'}

    def _rng_event(self, func, s, p, e, name):
        if name in self.PROCESS_STATE_SETTERS:
            s.global_writes.append((name + '(...)', 'call that changes process-wide state', e.loc()))
        if name.startswith('numpy.random.'):
            fn = name.split('.')[-1]
            if fn == 'default_rng':
                args = list(e.data.get('args', [])) + list((e.data.get('kwargs') or {}).values())
                s.rng.append(('default_rng', args[0] if args else None, e.loc()))
            elif fn not in self.GLOBAL_RNG_OK:
                s.rng.append(('global-rng', name, e.loc()))
        elif name.startswith('random.') or name in ('os.urandom', 'uuid.uuid4', 'uuid.uuid1', 'time.time',
                                                    'time.time_ns', 'time.perf_counter', 'time.monotonic',
                                                    'id', 'secrets.token_bytes'):
            s.rng.append(('nondet', name, e.loc()))
        elif name == 'hash' and func.name != '__hash__':
            s.rng.append(('nondet', 'hash()', e.loc()))

    DRAWS = {'normal', 'poisson', 'lognormal', 'standard_normal', 'uniform', 'random', 'integers', 'choice',
             'exponential', 'gamma', 'binomial', 'rand', 'randn', 'shuffle', 'permutation'}

    def _rng_method(self, func, s, p, e, meth):
        if meth in self.DRAWS:
            s.rng.append(('draw', (meth, e.data.get('recv'), e.data.get('args'), e.data.get('kwargs')), e.loc()))


def _scalar_chain(v):
    """The alias chain passes through .shape/.size/.ndim or an integer element
    index: the value is (as far as the source shows) a python scalar."""
    a = v.single_atom() if isinstance(v, Poly) else None
    while a is not None and a[0] in ('attr', 'idx', 'app'):
        if a[0] == 'attr':
            if a[2] in ('shape', 'size', 'ndim'):
                return True
            a = a[1]
        elif a[0] == 'idx':
            k = a[2]
            if isinstance(k, Poly) and k.const_value() is not None:
                return True
            a = a[1]
        else:
            arg = a[2][0] if a[2] else None
            a = arg.single_atom() if isinstance(arg, Poly) else None
    return False


def _array_evidence(func, name):
    """The function subscripts the parameter, reads .shape/.ndim/.size or passes
    it through np.asarray: it is used as an array."""
    for n in ast.walk(func.node):
        if isinstance(n, ast.Subscript) and isinstance(n.value, ast.Name) and n.value.id == name:
            return True
        if isinstance(n, ast.Attribute) and isinstance(n.value, ast.Name) and n.value.id == name \
                and n.attr in ('shape', 'ndim', 'size', 'dtype', 'T', 'ravel', 'reshape'):
            return True
        if isinstance(n, ast.Call) and getattr(n.func, 'attr', '') in ('asarray', 'asanyarray') \
                and n.args and isinstance(n.args[0], ast.Name) and n.args[0].id == name:
            return True
    return False
