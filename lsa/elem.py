"""Element-wise semantics of array terms.

``ElemEval.at(term, (i, j))`` rewrites an array-valued normal-form term into the
scalar normal form of its element ``[i, j]`` (``outer(A, B)[i, j] = A[i]*B[j]``,
``arange(n)[i] = i``, ``X.T[i, j] = X[j, i]``, ``x[:, None][i, j] = x[i]``,
``meshgrid``/``mgrid`` components, element-wise functions commute with
indexing).  Two array expressions with equal element forms denote the same
array whatever way they were written (outer product, broadcasting, in-place
updates, helper functions), which makes kernel rules robust to refactoring.
"""
from . import nf
from .nf import Poly, Tup, Const, Slice, NONE
from .shapes import Shapes, kw, positional

ELEMENTWISE = {'exp', 'sinc', 'sin', 'cos', 'tan', 'abs', 'real', 'imag', 'conj', 'floor', 'ceil', 'fix', 'round',
               'rint', 'log', 'deg2rad', 'angle', 'sign'}
TRANSPARENT = {'cast', 'copy', 'm:astype', 'm:copy', 'deepcopy'}


class Unsupported(Exception):
    pass


class ElemEval:
    def __init__(self, shapes=None):
        self.shapes = shapes or Shapes({})

    def rank(self, v):
        s = self.shapes.of(v) if not isinstance(v, tuple) else self.shapes.atom(v)
        if s is None:
            raise Unsupported(f'rank of {nf.fmt(v)[:120]} unknown')
        return s

    def at(self, v, idx):
        """Scalar normal form of element ``idx`` (tuple of Poly) of value v."""
        if isinstance(v, Tup) and v.kind == 'vec' and len(idx) >= 1:
            raise Unsupported('vector literal')
        if not isinstance(v, Poly):
            raise Unsupported(repr(v))
        total = nf.ZERO
        for m, c in v.terms:
            t = Poly.const(c)
            for a, e in m:
                t = t * self.atom_at(a, idx).pow(e)
            total = total + t
        return total

    def sub_idx(self, shape, idx):
        """Indices an operand of the given shape sees under broadcasting."""
        r = len(shape)
        if r > len(idx):
            raise Unsupported('operand rank exceeds result rank')
        use = idx[len(idx) - r:]
        return tuple(Poly.const(0) if d == Poly.const(1) else i for d, i in zip(shape, use))

    def atom_at(self, a, idx):
        k = a[0]
        if k in ('I', 'pi', 'num'):
            return Poly.atom(a)
        shape = self.shapes.atom(a)
        if shape is None:
            raise Unsupported(f'shape of {nf.fmt_atom(a)[:120]} unknown')
        if len(shape) == 0:
            return Poly.atom(a)
        ix = self.sub_idx(shape, idx)
        if k == 'poly':
            return self.at(a[1], ix)
        if k == 'sym' or k in ('fresh', 'loop', 'iter'):
            return nf.index(Poly.atom(a), Tup(ix))
        if k == 'attr':
            if a[2] == 'T':
                return self.atom_at(a[1], tuple(reversed(ix)))
            if a[2] in ('real', 'imag'):
                return nf.app(a[2], self.atom_at(a[1], ix))
            return nf.index(Poly.atom(a), Tup(ix))
        if k == 'idx' and a[1][0] == 'app' and a[1][1] in ('broadcast_arrays', 'numpy.broadcast_arrays') and isinstance(a[2], Poly) \
                and a[2].const_value() is not None:
            comp = positional(a[1][2])[int(a[2].const_value())]
            return self.at(comp, self.sub_idx(self.rank(comp), ix))
        if k == 'idx':
            base = a[1]
            bshape = self.shapes.atom(base) if base[0] != 'val' else self.shapes.of(base[1])
            if bshape is None:
                raise Unsupported('indexed base of unknown shape')
            key = a[2]
            items = list(key.items) if isinstance(key, Tup) and key.kind != 'vec' else [key]
            if any(i == nf.ELLIPSIS for i in items):
                kpos = items.index(nf.ELLIPSIS)
                n_real = sum(1 for i in items if not (isinstance(i, Const) and i.value is None) and i != nf.ELLIPSIS)
                items = items[:kpos] + [Slice(NONE, NONE)] * (len(bshape) - n_real) + items[kpos + 1:]
            out_i = 0
            base_idx = []
            for it in items:
                if isinstance(it, Const) and it.value is None:
                    out_i += 1
                    continue
                if isinstance(it, Slice):
                    if it.step != NONE:
                        raise Unsupported('strided slice')
                    lo = Poly.const(0) if it.lo == NONE else it.lo
                    base_idx.append(ix[out_i] + lo)
                    out_i += 1
                elif isinstance(it, Poly):
                    base_idx.append(it)
                else:
                    raise Unsupported('fancy index')
            while len(base_idx) < len(bshape):
                base_idx.append(ix[out_i])
                out_i += 1
            if base[0] == 'val':
                return self.at(base[1], tuple(base_idx))
            return self.atom_at(base, tuple(base_idx))
        if k != 'app':
            raise Unsupported(nf.fmt_atom(a)[:80])
        name, args = a[1], a[2]
        pos = positional(args)
        if name in ELEMENTWISE:
            inner = self.at(pos[0], self.sub_idx(self.rank(pos[0]), ix))
            from .npmodel import unary
            return unary(name, inner) if name in ('exp', 'abs', 'floor', 'ceil') else nf.app(name, inner)
        if name in TRANSPARENT:
            return self.at(pos[0], ix)
        if name in ('m:reshape', 'reshape') and len(ix) == 2:
            # column / row vector of a 1-D array (shape inference accepted only these)
            return self.at(pos[0], (ix[0],)) if shape[1] == Poly.const(1) else self.at(pos[0], (ix[1],))
        if name == 'T':
            return self.at(pos[0], tuple(reversed(ix)))
        if name == 'outer' and len(ix) == 2:
            return self.at(pos[0], (ix[0],)) * self.at(pos[1], (ix[1],))
        if name in ('add_outer', 'sub_outer') and len(ix) == 2:
            a_, b_ = self.at(pos[0], (ix[0],)), self.at(pos[1], (ix[1],))
            return a_ + b_ if name == 'add_outer' else a_ - b_
        if name == 'arange' and len(pos) == 1 and len(ix) == 1:
            return ix[0]
        if name == 'arange' and len(pos) in (2, 3) and len(ix) == 1 and all(isinstance(x, Poly) for x in pos):
            step = pos[2] if len(pos) == 3 else Poly.const(1)
            return pos[0] + step * ix[0]
        if name == 'fft.fftfreq' and len(ix) == 1:
            return nf.app('fftfreq_at', pos[0], ix[0])
        if name == 'meshgrid' and len(pos) == 4 and len(ix) == 2:
            comp = int(pos[3].const_value())
            ij = pos[2] == Const('ij')
            src = ix[0] if (comp == 0) == ij else ix[1]
            return self.at(pos[comp], (src,))
        if name == 'mgrid' and len(ix) == len(pos) - 1:
            comp = int(pos[-1].const_value())
            s = pos[comp]
            lo = Poly.const(0) if s.lo == NONE else s.lo
            return ix[comp] + lo
        if name in ('zeros', 'zeros_like'):
            return nf.ZERO
        if name in ('ones', 'ones_like'):
            return nf.ONE
        if name in ('maximum', 'minimum', 'hypot', 'pow', 'mod'):
            return nf.app(name, *[self.at(x, self.sub_idx(self.rank(x), ix)) for x in pos])
        raise Unsupported(f'no element semantics for {name}')
