"""Expression evaluation of the abstract interpreter (term domain)."""
import ast
from fractions import Fraction

from . import nf
from .nf import Poly, Tup, Const, Slice, app, NONE, TRUE, FALSE
from .model import FuncInfo, ClassInfo, dotted
from .npmodel import (HANDLERS, NP_CONSTS, ARRAY_METHODS_MUTATE, P, arith, unary)
from .state import Fork, fresh_id

CMP = {ast.Lt: 'lt', ast.LtE: 'le', ast.Gt: 'gt', ast.GtE: 'ge', ast.Eq: 'eq', ast.NotEq: 'ne',
       ast.In: 'in', ast.NotIn: 'notin', ast.Is: 'is', ast.IsNot: 'isnot'}
BINOP = {ast.Add: 'add', ast.Sub: 'sub', ast.Mult: 'mul', ast.Div: 'div', ast.FloorDiv: 'floordiv',
         ast.Pow: 'pow', ast.Mod: 'mod', ast.MatMult: 'matmul', ast.BitAnd: 'bitand',
         ast.BitOr: 'bitor', ast.BitXor: 'bitxor', ast.LShift: 'lshift', ast.RShift: 'rshift'}

BUILTIN_EXC = {'ValueError', 'TypeError', 'NotImplementedError', 'FloatingPointError',
               'AttributeError', 'KeyError', 'IndexError', 'RuntimeError', 'Exception',
               'AssertionError', 'DeprecationWarning', 'Ellipsis'}


def truth(v):
    """Python truthiness of an abstract value: True / False / None (unknown)."""
    if isinstance(v, Const):
        try:
            return bool(v.value)
        except Exception:
            return None
    if isinstance(v, Tup):
        return len(v) > 0
    if isinstance(v, Poly):
        cv = v.const_value()
        if cv is not None:
            return cv != 0
        a = v.single_atom()
        if a is not None and a[0] == 'app' and a[1] == 'or' and a[2] and isinstance(a[2][-1], Poly) and \
                (a[2][-1].const_value() or 0) != 0:
            return True
    return None


PHYSICAL_CONSTANTS = {'H', 'C', 'K'}


def _is_enum(cls):
    return any((b or '').split('.')[-1] in ('Enum', 'IntEnum', 'StrEnum', 'Flag', 'IntFlag') for b in cls.base_exprs)


_TYPE_NAMES = {'int', 'float', 'complex', 'bool', 'str', 'bytes', 'list', 'tuple', 'dict', 'set', 'frozenset', 'number', 'ndarray',
               'integer', 'floating', 'complexfloating', 'generic', 'Number', 'Real', 'Integral', 'Complex', 'bool_', 'inexact',
               'signedinteger', 'unsignedinteger', 'Sequence', 'Iterable', 'Mapping'}


def _constant_expr(node):
    """literals combined by arithmetic with names / dotted names (other constants), tuples of those; no calls"""
    if isinstance(node, ast.Constant):
        return isinstance(node.value, (int, float, complex))
    if isinstance(node, ast.BinOp):
        return _constant_expr(node.left) and _constant_expr(node.right)
    if isinstance(node, ast.UnaryOp):
        return _constant_expr(node.operand)
    if isinstance(node, (ast.Name, ast.Attribute)):
        return dotted(node) is not None
    if isinstance(node, ast.Call) and not node.keywords and dotted(node.func) is not None and \
            dotted(node.func).split('.')[-1] in ('sqrt', 'deg2rad', 'rad2deg', 'radians', 'degrees', 'float', 'int', 'abs') and \
            dotted(node.func).split('.')[0] in ('np', 'numpy', 'math', 'float', 'int', 'abs'):
        return all(_constant_expr(a) for a in node.args)      # e.g. _SQRT3 = np.sqrt(3)
    return False


def _table_expr(node):
    """a literal table: dict / tuple / list / set displays whose leaves are constants or (dotted) names"""
    if isinstance(node, ast.Dict):
        return bool(node.keys) and all(k is not None and _table_expr(k) for k in node.keys) and all(_table_expr(v) for v in node.values)
    if isinstance(node, (ast.Tuple, ast.List, ast.Set)):
        return all(_table_expr(e) for e in node.elts)
    if isinstance(node, ast.Constant):
        return True
    if isinstance(node, (ast.DictComp, ast.ListComp)) and len(node.generators) == 1 and not node.generators[0].ifs \
            and isinstance(node.generators[0].target, ast.Name) and _table_expr(node.generators[0].iter):
        # {row.name: row for row in (literal rows)}: a table keyed by a field of its rows
        tv = node.generators[0].target.id

        def of_row(e):
            if isinstance(e, ast.Name):
                return e.id == tv
            if isinstance(e, ast.Attribute):
                return of_row(e.value)
            if isinstance(e, ast.Subscript):
                return of_row(e.value) and isinstance(e.slice, ast.Constant)
            return isinstance(e, ast.Constant)
        parts = [node.key, node.value] if isinstance(node, ast.DictComp) else [node.elt]
        return all(of_row(e) for e in parts)
    if isinstance(node, ast.Call) and isinstance(node.func, ast.Name) and node.func.id.startswith('_') and \
            not any(k.arg is None for k in node.keywords):
        # a row built by a private helper of the module from literal entries
        return all(_table_expr(a.value if isinstance(a, ast.Starred) else a) for a in node.args) and \
            all(_table_expr(k.value) for k in node.keywords)
    return _constant_expr(node)


class _ModuleScope:
    """stand-in for `cur` while a module-level expression is evaluated"""
    def __init__(self, module, like):
        self.module = module
        self.key = f'{module.name}.<module>'
        self.name = '<module>'
        self.qualname = '<module>'
        self.cls = None
        self.node = getattr(like, 'node', None)

    def params(self):
        return []

    def loc(self, node=None):
        return self.module.relpath


class ExprMixin:
    # ------------------------------------------------------------------ names
    def eval(self, node, st):
        m = getattr(self, 'e_' + type(node).__name__, None)
        if m is None:
            return Poly.atom(('fresh', fresh_id(), type(node).__name__))
        v = m(node, st)
        return self.apply_facts(v)

    def apply_facts(self, v):
        if self.facts and isinstance(v, Poly):
            a = v.single_atom()
            if a is not None and a in self.facts:
                return self.facts[a]
            if a is None and len(v.terms) <= 4 and any(x in self.facts for x in v.atoms(deep=False)):
                return nf.subst_value(v, {x: self.facts[x] for x in v.atoms(deep=False) if x in self.facts})
        return v

    def e_Constant(self, node, st):
        v = node.value
        if isinstance(v, bool) or v is None or isinstance(v, (str, bytes)) or v is Ellipsis:
            return Const(v)
        if isinstance(v, int):
            return Poly.const(v)
        if isinstance(v, float):
            return Poly.const(Fraction(repr(v)))
        if isinstance(v, complex):
            return Poly.const(Fraction(repr(v.imag))) * nf.I + Poly.const(Fraction(repr(v.real)))
        return Const(v)

    def e_Name(self, node, st):
        name = node.id
        if name in st.env:
            return st.env[name]
        return self.global_name(name)

    def global_name(self, name):
        mod = self.cur.module
        tgt = self.repo.resolve_name(mod, name)
        if tgt is not None:
            return self.target_value(tgt, name)
        if name == 'Ellipsis':
            return nf.ELLIPSIS
        if name in HANDLERS or name in BUILTIN_EXC:
            return Const(('builtin', name))
        return nf.sym(name)

    def _eval_module_value(self, val, state):
        """value of a module-level constant expression; the objects it builds (records in a table) keep their fields"""
        v = self.eval(val, state)
        if state.heap:
            self.__dict__.setdefault('global_heap', {}).update(state.heap)
        return v

    def target_value(self, tgt, name):
        if isinstance(tgt, ClassInfo):
            # class X(NamedTuple): a: T; b: T  - a tuple whose items answer to the annotated names
            from .interp import namedtuple_fields
            fields = namedtuple_fields(tgt.module, tgt.name)
            if fields:
                return Const(('namedtuple', tgt.name, tuple(fields)))
        if isinstance(tgt, (FuncInfo, ClassInfo)):
            return Const(tgt)
        k = tgt[0]
        if k == 'ext':
            if tgt[1] in NP_CONSTS:
                return NP_CONSTS[tgt[1]]
            return Const(('ext', tgt[1]))
        if k == 'module':
            return Const(('module', tgt[1].name))
        if k == 'global':
            m, nm = tgt[1], tgt[2]
            if m.name == '__init__':
                val = m.globals[nm]
                if isinstance(val, ast.Call) and dotted(val.func) == 'ptype' and val.args \
                        and isinstance(val.args[0], ast.Constant):
                    return Const(('ptype', val.args[0].value))
                return nf.sym(f'lentil.{nm}')
            val = m.globals[nm]
            from .interp import namedtuple_fields
            ntf = namedtuple_fields(m, nm)
            if ntf is not None:
                return Const(('namedtuple', nm, ntf))
            if isinstance(val, ast.Call) and isinstance(val.func, ast.Name) and val.func.id == 'object' and not val.args \
                    and not val.keywords:
                return Const(('sentinel', f'{m.name}.{nm}'))      # NAME = object(): one object, equal to nothing else
            if isinstance(val, ast.Constant) and isinstance(val.value, (int, float)):
                if self.symbolic_globals and (self.symbolic_globals is True and nm in PHYSICAL_CONSTANTS
                                              or (self.symbolic_globals is not True and nm in self.symbolic_globals)):
                    return nf.sym(f'{m.name}.{nm}')      # the physical constants stay symbols (H, C, K); other numbers are values
                return self.e_Constant(val, None)
            if isinstance(val, ast.Constant) and isinstance(val.value, str) and len(val.value) <= 16 and \
                    not any(isinstance(n_, ast.Global) and nm in n_.names for n_ in ast.walk(m.tree)):
                return Const(val.value)          # _COLORS = 'RGB': a string constant
            seq_of_callables = isinstance(val, (ast.Tuple, ast.List)) and val.elts and \
                all(isinstance(v_, (ast.Lambda, ast.Name, ast.Attribute)) for v_ in val.elts) and \
                all(isinstance(v_, ast.Lambda) or (dotted(v_) or '').split('.')[-1] in
                    ('max', 'min', 'abs', 'sum', 'len', 'floor', 'ceil', 'sin', 'cos', 'real', 'imag', 'sqrt', 'maximum', 'minimum')
                    for v_ in val.elts)
            def nested_table(d_):
                # {key: {key: function}}: a dispatch table with two keys
                return isinstance(d_, ast.Dict) and d_.keys and all(k is not None and isinstance(k, ast.Constant) for k in d_.keys) and \
                    all((isinstance(v_, ast.Name) and v_.id in m.functions) or isinstance(v_, ast.Lambda) or nested_table(v_)
                        for v_ in d_.values)
            rows_of_callables = isinstance(val, (ast.Tuple, ast.List)) and 0 < len(val.elts) <= 12 and all(
                isinstance(r_, (ast.Tuple, ast.List)) and r_.elts and
                all(isinstance(c_, (ast.Lambda, ast.Constant)) or (isinstance(c_, ast.Name) and c_.id in m.functions) for c_ in r_.elts)
                and any(isinstance(c_, ast.Lambda) or isinstance(c_, ast.Name) for c_ in r_.elts) for r_ in val.elts)
            record_table = isinstance(val, ast.Dict) and val.keys and all(k is not None and isinstance(k, ast.Constant) for k in val.keys) and \
                all(isinstance(v_, ast.Call) and isinstance(v_.func, ast.Name) and namedtuple_fields(m, v_.func.id)
                    and all(_table_expr(a_) for a_ in v_.args) and all(k_.arg is not None and _table_expr(k_.value) for k_ in v_.keywords)
                    for v_ in val.values)                # {'mask': Settings(order=0, mode='constant'), ...}: constant records by name
            if seq_of_callables or rows_of_callables or record_table or nested_table(val) or isinstance(val, ast.Dict) and val.keys and all(k is not None and isinstance(k, ast.Constant) for k in val.keys) and \
                    all(isinstance(v_, (ast.Lambda, ast.Name, ast.Attribute)) for v_ in val.values) and \
                    (any(isinstance(v_, ast.Lambda) for v_ in val.values) or
                     all(isinstance(v_, ast.Name) and v_.id in m.functions for v_ in val.values)):
                # a dispatch table {key: lambda ...}: read by value so that TABLE[key](x) is the call of that function
                prev, self.cur = self.cur, _ModuleScope(m, self.cur)
                try:
                    from .state import State
                    return self._eval_module_value(val, State())
                except Exception:
                    pass
                finally:
                    self.cur = prev
            if isinstance(val, ast.Call) and (dotted(val.func) or '').split('.')[-1] in ('attrgetter', 'itemgetter') and \
                    all(isinstance(a_, ast.Constant) for a_ in val.args) and not val.keywords:
                # NAME = operator.attrgetter('extent'): a callable that reads that attribute
                prev, self.cur = self.cur, _ModuleScope(m, self.cur)
                try:
                    from .state import State
                    return self._eval_module_value(val, State())
                except Exception:
                    pass
                finally:
                    self.cur = prev
            if isinstance(val, ast.Call) and (dotted(val.func) or '').split('.')[-1] == 'partial' and \
                    (dotted(val.func) or '').split('.')[0] in ('functools', 'partial'):
                # NAME = functools.partial(f, ...) at module level: a callable bound once
                prev, self.cur = self.cur, _ModuleScope(m, self.cur)
                try:
                    from .state import State
                    v_ = self._eval_module_value(val, State())
                    if isinstance(v_, Const) and isinstance(v_.value, tuple) and v_.value[0] == 'partial':
                        return v_
                except Exception:
                    pass
                finally:
                    self.cur = prev
            if isinstance(val, ast.Subscript) and (dotted(val.value) or '').split('.')[-1] in ('s_', 'index_exp') and \
                    all(isinstance(n_, (ast.Subscript, ast.Slice, ast.Tuple, ast.Constant, ast.UnaryOp, ast.USub, ast.Load,
                                        ast.Name, ast.Attribute)) for n_ in ast.walk(val)):
                # NAME = np.s_[1:]: a constant index expression
                prev, self.cur = self.cur, _ModuleScope(m, self.cur)
                try:
                    from .state import State
                    return self._eval_module_value(val, State())
                except Exception:
                    pass
                finally:
                    self.cur = prev
            if isinstance(val, ast.Call) and isinstance(val.func, ast.Name) and namedtuple_fields(m, val.func.id) and \
                    all(_table_expr(a_) for a_ in val.args) and all(k_.arg is not None and _table_expr(k_.value) for k_ in val.keywords):
                # NAME = Settings(order=3, mode='nearest') with Settings a NamedTuple of the module: a constant record
                prev, self.cur = self.cur, _ModuleScope(m, self.cur)
                try:
                    from .state import State
                    v_ = self._eval_module_value(val, State())
                    if isinstance(v_, Tup):
                        return v_
                except Exception:
                    pass
                finally:
                    self.cur = prev
            int_tuple = isinstance(val, ast.Tuple) and val.elts and all(
                isinstance(e_, ast.Constant) and type(e_.value) is int for e_ in val.elts)   # _AXES = (0, 1): immutable
            type_tuple = isinstance(val, ast.Tuple) and val.elts and all(
                isinstance(e_, (ast.Name, ast.Attribute)) and (dotted(e_) or '').split('.')[-1] in _TYPE_NAMES
                for e_ in val.elts)                 # _NUMBERS = (int, float, np.number): the second argument of isinstance
            if isinstance(val, ast.Call) and isinstance(val.func, ast.Name) and val.func.id in ('frozenset', 'set', 'tuple', 'list') \
                    and len(val.args) == 1 and not val.keywords and isinstance(val.args[0], (ast.Tuple, ast.List, ast.Set)):
                val = val.args[0]           # frozenset((a, b, c)): the members
            pkg_tuple = isinstance(val, (ast.Tuple, ast.List, ast.Set)) and val.elts and all(
                isinstance(e_, ast.Attribute) and isinstance(e_.value, ast.Name) and e_.value.id == 'lentil' for e_ in val.elts)
            #                                             _ALLOWED = (lentil.none, lentil.pupil, lentil.image): package constants
            if _constant_expr(val) or int_tuple or type_tuple or pkg_tuple or (getattr(self, 'literal_tables', False) and isinstance(val, (ast.Dict, ast.Tuple, ast.List, ast.Set, ast.DictComp, ast.ListComp))
                                       and _table_expr(val)):
                # a module constant derived from literals and other constants (e.g. -2j*pi): its value
                prev, self.cur = self.cur, _ModuleScope(m, self.cur)
                try:
                    from .state import State
                    return self._eval_module_value(val, State())
                except Exception:
                    return nf.sym(f'{m.name}.{nm}')
                finally:
                    self.cur = prev
            return nf.sym(f'{m.name}.{nm}')
        if k == 'missing':
            return Const(('missing', tgt[1]))
        if k == 'classattr' and isinstance(tgt[1], ClassInfo):
            v = self.load_attr(Const(tgt[1]), tgt[2], None, None)
            a = v.single_atom() if isinstance(v, Poly) else None
            if not (a is not None and a[0] == 'app' and a[1] == 'classattr'):
                return v
        return nf.sym(name)

    # ------------------------------------------------------------- operators
    DUNDER = {ast.BitAnd: '__and__', ast.BitOr: '__or__', ast.BitXor: '__xor__', ast.MatMult: '__matmul__'}

    def e_BinOp(self, node, st):
        a, b = self.eval(node.left, st), self.eval(node.right, st)
        op = BINOP.get(type(node.op), 'binop')
        dn = self.DUNDER.get(type(node.op))
        if dn is not None and isinstance(a, Poly) and a.single_atom() is not None and a.single_atom()[0] == 'fresh':
            # `x & y` on records of a private class that defines the operator (not used for arithmetic on arrays)
            cls_ = self.class_of(a)
            fm_ = cls_.find_method(dn) if cls_ is not None else None
            if fm_ is not None and hasattr(self, 'call_internal'):
                return self.call_internal(fm_, [b], {}, st, node, self_val=a)
        if op in ('div', 'pow', 'floordiv', 'mod'):
            # the operands as evaluated (the normal form of the result no longer shows what was divided by what)
            self.log(st, 'arith', node, op=op, left=a, right=b)
        if op == 'add' and isinstance(a, Tup) and isinstance(b, Tup) \
                and 'vec' not in (a.kind, b.kind):
            return Tup(a.items + b.items, a.kind)
        if op == 'mul' and isinstance(a, Tup) and a.kind != 'vec' and isinstance(b, Poly) \
                and b.const_value() is not None:
            return Tup(a.items * int(b.const_value()), a.kind)
        if op == 'mod' and isinstance(a, Const) and isinstance(a.value, str):
            return Const('<fmt>')
        if op == 'mul':
            for lst, cnt in ((a, b), (b, a)):
                ca = cnt.single_atom() if isinstance(cnt, Poly) else None
                if isinstance(lst, Tup) and lst.kind == 'list' and ca is not None and ca[0] == 'app' and ca[1] == 'len':
                    return app('repeat_list', lst, cnt)         # [x] * len(seq): a list, not a product of numbers
        return arith(op, a, b)

    def e_UnaryOp(self, node, st):
        v = self.eval(node.operand, st)
        if isinstance(node.op, ast.USub):
            return arith('mul', Poly.const(-1), v)
        if isinstance(node.op, ast.UAdd):
            return v
        if isinstance(node.op, ast.Not):
            t = truth(v)
            if t is not None:
                return Const(not t)
            return app('not', P(v))
        return app('invert', P(v))

    def e_BoolOp(self, node, st):
        vals = [self.eval(v, st) for v in node.values]
        is_and = isinstance(node.op, ast.And)
        keep = []
        for v in vals:
            t = truth(v)
            if t is None:
                keep.append(v)
            elif is_and and not t:
                return v if not keep else FALSE
            elif not is_and and t:
                if keep and isinstance(v, Poly) and v.const_value() is not None and all(isinstance(k, Poly) for k in keep):
                    return app('or', *keep, v)        # `x or 1`: x where it is truthy, else the number (not a truth value)
                return v if not keep else TRUE
        if not keep:
            return vals[-1]
        if len(keep) == 1:
            return keep[0]
        return app('and' if is_and else 'or', *[P(k) for k in keep])

    def e_Compare(self, node, st):
        left = self.eval(node.left, st)
        parts = []
        for op, rn in zip(node.ops, node.comparators):
            right = self.eval(rn, st)
            parts.append(self.compare(CMP[type(op)], left, right))
            left = right
        if len(parts) == 1:
            return parts[0]
        ts = [truth(p) for p in parts]
        if all(t is True for t in ts):
            return TRUE
        if any(t is False for t in ts):
            return FALSE
        return app('and', *[P(p) for p in parts])

    def compare(self, op, a, b):
        if op in ('is', 'isnot'):
            known = None
            if isinstance(a, Const) and isinstance(b, Const):
                known = a == b
            elif isinstance(b, Const) and b.value is None and isinstance(a, (Tup, Slice)):
                known = False
            elif isinstance(b, Const) and b.value is None and isinstance(a, Poly):
                sa = a.single_atom()
                if sa is None or sa[0] == 'idx':
                    known = False
                elif sa in getattr(self, 'types', {}):
                    known = False       # declared to be an instance of a class of the package
                elif sa[0] == 'app' and not sa[1].startswith(('m:', 'call:', 'callv', 'dict', 'kwargs')) and \
                        sa[1] not in ('next', 'getattr', 'ifexp', 'min', 'max', 're.match', 're.search', 'os.environ.get'):
                    known = False       # arithmetic / array-creating results are never None (next(it, None) etc. can be)
            if known is not None:
                return Const(known if op == 'is' else not known)
            return app(op, P(a), P(b))
        if op in ('eq', 'ne'):
            # x.dtype.kind == 'c' is np.iscomplexobj(x)
            for u, v in ((a, b), (b, a)):
                ua = u.single_atom() if isinstance(u, Poly) else None
                if isinstance(v, Const) and v.value == 'c' and ua is not None and ua[0] == 'attr' and ua[2] == 'kind' \
                        and ua[1][0] == 'attr' and ua[1][2] == 'dtype':
                    t = app('iscomplexobj', Poly.atom(ua[1][1]))
                    return t if op == 'eq' else app('not', t)
        if isinstance(a, Tup) and isinstance(b, Tup) and op in ('eq', 'ne'):
            if len(a) != len(b):
                return Const(op == 'ne')
            if all(isinstance(x, Poly) and x.const_value() is not None for x in a.items + b.items):
                return Const((a == b) == (op == 'eq'))
        if isinstance(a, Const) and isinstance(b, Const):
            if op == 'eq':
                return Const(a.value == b.value)
            if op == 'ne':
                return Const(a.value != b.value)
        if op in ('in', 'notin') and isinstance(a, Const) and isinstance(b, Tup) \
                and all(isinstance(i, Const) for i in b.items):
            r = a in b.items
            return Const(r if op == 'in' else not r)
        if op in ('in', 'notin') and isinstance(a, Const) and isinstance(b, Poly) and b.single_atom() is not None \
                and b.single_atom()[0] == 'app' and b.single_atom()[1] == 'dict' and b.single_atom()[2] \
                and all(isinstance(pr, Tup) and len(pr) == 2 and isinstance(pr.items[0], Const) for pr in b.single_atom()[2]):
            r = any(pr.items[0] == a for pr in b.single_atom()[2])        # key in {literal dict}
            return Const(r if op == 'in' else not r)
        if op in ('in', 'notin') and isinstance(a, Poly) and a.const_value() is not None and isinstance(b, Tup) \
                and all(isinstance(i, Poly) and i.const_value() is not None for i in b.items):
            r = any(i.const_value() == a.const_value() for i in b.items)
            return Const(r if op == 'in' else not r)
        if isinstance(a, Poly) and isinstance(b, Poly):
            ca, cb = a.const_value(), b.const_value()
            if ca is not None and cb is not None:
                r = {'lt': ca < cb, 'le': ca <= cb, 'gt': ca > cb, 'ge': ca >= cb,
                     'eq': ca == cb, 'ne': ca != cb}.get(op)
                if r is not None:
                    return Const(r)
            if a == b and op in ('eq', 'le', 'ge'):
                return TRUE
            if a == b and op in ('ne', 'lt', 'gt'):
                return FALSE
        # canonical orientation: gt/ge -> lt/le with swapped operands
        if op == 'gt':
            return app('lt', P(b), P(a))
        if op == 'ge':
            return app('le', P(b), P(a))
        return app(op, P(a), P(b))

    def e_IfExp(self, node, st):
        tv0 = self.eval(node.test, st)
        t = truth(tv0)
        if t is None:
            mm = self._minmax_ifexp(node, tv0, st)
            if mm is not None:
                return mm
        if t is None:
            from .interp import implied
            t = implied(tv0, st.conds)
        if t is None and getattr(self, 'comp_depth', 0):
            # inside a comprehension the choice is made per element: a value, not a branch of the path
            return app('ifexp', P(tv0), P(self.eval(node.body, st)), P(self.eval(node.orelse, st)))
        if t is None:
            ch = st.choices.get(id(node))
            if ch is None:
                raise Fork(node, 2)
            t = (ch == 0)
            from .interp import canon_cond
            ctv, cpol = canon_cond(self.eval(node.test, st), t)
            st.conds.append((ctv, cpol, node))
        return self.eval(node.body if t else node.orelse, st)

    def _minmax_ifexp(self, node, tv, st):
        """`a if a > b else b` is max(a, b), `a if a < b else b` is min(a, b) (either operand order, strict or not)."""
        simple = (ast.Name, ast.Attribute, ast.Subscript, ast.Constant)
        if not (isinstance(node.body, simple) and isinstance(node.orelse, simple)):
            return None
        a = tv.single_atom() if isinstance(tv, Poly) else None
        if a is None or a[0] != 'app' or a[1] not in ('lt', 'le') or len(a[2]) != 2:
            return None
        x, y = a[2]                      # the test says x < y (or <=)
        if not (isinstance(x, Poly) and isinstance(y, Poly)):
            return None
        vb, vo = self.eval(node.body, st), self.eval(node.orelse, st)
        if not (isinstance(vb, Poly) and isinstance(vo, Poly)):
            return None
        if vb == x and vo == y:
            return app('min', x, y)
        if vb == y and vo == x:
            return app('max', x, y)
        return None

    # ------------------------------------------------------------ containers
    def _display_items(self, node, st):
        """items of a tuple / list display; `*seq` contributes the items of a known sequence or the fields of a record"""
        out = []
        for e in node.elts:
            if isinstance(e, ast.Starred):
                v = self.eval(e.value, st)
                if isinstance(v, Tup):
                    out.extend(v.items)
                    continue
                if isinstance(v, Poly) and v.single_atom() is not None:
                    from .interp import RECORD_FIELDS
                    fields = RECORD_FIELDS.get(v.single_atom())
                    if fields and all(nf.attr(v, f_).single_atom() in st.heap for f_ in fields):
                        out.extend(st.heap[nf.attr(v, f_).single_atom()] for f_ in fields)
                        continue
                out.append(app('starred', P(v)))
                continue
            out.append(self.eval(e, st))
        return out

    def e_Tuple(self, node, st):
        return Tup(self._display_items(node, st), 'tuple')

    def e_List(self, node, st):
        return Tup(self._display_items(node, st), 'list')

    def e_Set(self, node, st):
        return Tup([self.eval(e, st) for e in node.elts], 'tuple')

    def e_Dict(self, node, st):
        items = []
        for k, v in zip(node.keys, node.values):
            items.append(Tup([self.eval(k, st) if k is not None else NONE, self.eval(v, st)]))
        return app('dict', *items)

    def e_JoinedStr(self, node, st):
        return Const('<fstring>')

    def e_Lambda(self, node, st):
        from .model import FuncInfo
        fn = ast.FunctionDef(name='<lambda>', args=node.args, body=[ast.Return(value=node.body, lineno=node.lineno,
                                                                              col_offset=node.col_offset)],
                             decorator_list=[], lineno=node.lineno, col_offset=node.col_offset)
        fi = FuncInfo(self.cur.module, f'{self.cur.qualname}.<lambda>@{node.lineno}', fn, cls=None)
        return Const(('closure', fi))

    def e_Starred(self, node, st):
        return app('starred', P(self.eval(node.value, st)))

    def e_Slice(self, node, st):
        f = lambda n: self.eval(n, st) if n is not None else NONE
        return Slice(f(node.lower), f(node.upper), f(node.step))

    def shape_items(self, it):
        """`x.shape` as the tuple of its items when the number of axes of x is a known fact (for iteration)"""
        a = it.single_atom() if isinstance(it, Poly) else None
        if a is not None and a[0] == 'attr' and a[2] == 'shape':
            nd = self.apply_facts(nf.attr(Poly.atom(a[1]), 'ndim'))
            if isinstance(nd, Poly) and nd.const_value() is not None and 1 <= nd.const_value() <= 4:
                return Tup([nf.index(it, Poly.const(k)) for k in range(int(nd.const_value()))])
        return it

    def _comp(self, node, st, elt_nodes, kind):
        # a single generator over a sequence whose items are all known is unrolled
        if len(node.generators) == 1 and (node.generators[0].ifs or kind == 'dictcomp'):
            # over a known sequence with filters that fold for every item: the comprehension is its value
            gen = node.generators[0]
            it = self.eval(gen.iter, st)
            if isinstance(it, Tup) and len(it) <= 16:
                out, saved, decided = [], dict(st.env), True
                for item in it.items:
                    try:
                        self.assign_target_expr(gen.target, item, st, gen)
                    except Exception:
                        decided = False
                        break
                    keep = True
                    for cond in gen.ifs:
                        t = truth(self.eval(cond, st))
                        if t is None:
                            decided = False
                            break
                        if not t:
                            keep = False
                            break
                    if not decided:
                        break
                    if keep:
                        vals = [self.eval(e, st) for e in elt_nodes]
                        out.append(vals[0] if kind == 'listcomp' else Tup(vals))
                st.env.clear()
                st.env.update(saved)
                if decided:
                    return Tup(out, 'list') if kind == 'listcomp' else app('dict', *out)
        if len(node.generators) == 1 and not node.generators[0].ifs and kind == 'listcomp':
            gen = node.generators[0]
            it = self.eval(gen.iter, st)
            if isinstance(it, Const) and isinstance(it.value, str) and len(it.value) <= 8:
                it = Tup([Const(ch) for ch in it.value])
            it = self.shape_items(it)
            ita = it.single_atom() if isinstance(it, Poly) else None
            if ita is not None and ita[0] == 'idx' and ita[2] == NONE:
                it = Tup([Poly.atom(ita[1])])          # x[np.newaxis]: a sequence whose only item is x
            if isinstance(it, Tup) and len(it) <= 8:
                out = []
                saved = dict(st.env)
                for item in it.items:
                    self.assign_target_expr(gen.target, item, st, gen)
                    out.append(self.eval(elt_nodes[0], st))
                st.env.clear()
                st.env.update(saved)
                return Tup(out, 'list')
        sub = st.fork()
        sub.events = st.events      # share the log
        iters = []
        filters = []
        for gen in node.generators:
            it = self.eval(gen.iter, sub)
            iters.append(P(it) if not isinstance(it, Tup) else it)
            self.bind_loop_target(gen.target, it, sub, gen)
            for cond in gen.ifs:
                filters.append(self.eval(cond, sub))
        self.loop_depth += 1
        self.comp_depth = getattr(self, 'comp_depth', 0) + 1
        try:
            elts = [self.eval(e, sub) for e in elt_nodes]
        finally:
            self.loop_depth -= 1
            self.comp_depth -= 1
        if filters:
            # a filtered comprehension is not the sequence of all elements: keep the filter in the term
            return app(kind, *elts, *iters, Tup([Const('if')] + [f if isinstance(f, (Poly, Tup, Const)) else P(f) for f in filters]))
        return app(kind, *elts, *iters)

    def assign_target_expr(self, target, value, st, node):
        self.assign(target, value, st, node)

    def e_ListComp(self, node, st):
        return self._comp(node, st, [node.elt], 'listcomp')

    def e_GeneratorExp(self, node, st):
        return self._comp(node, st, [node.elt], 'listcomp')

    def e_SetComp(self, node, st):
        return self._comp(node, st, [node.elt], 'listcomp')

    def e_DictComp(self, node, st):
        return self._comp(node, st, [node.key, node.value], 'dictcomp')

    # -------------------------------------------------------------- attribute
    def e_Attribute(self, node, st):
        d = dotted(node)
        if d is not None:
            head = d.split('.')[0]
            if head not in st.env:
                tgt = self.repo.resolve_name(self.cur.module, d)
                if tgt is not None and not (isinstance(tgt, tuple) and tgt[0] == 'missing'
                                            and head not in self.cur.module.imports):
                    return self.target_value(tgt, d)
        base = self.eval(node.value, st)
        return self.load_attr(base, node.attr, st, node)

    def class_of(self, v):
        """ClassInfo of an abstract value when known."""
        if isinstance(v, Poly):
            a = v.single_atom()
            if a is not None:
                if a in self.types:
                    return self.types[a]
                if a[0] == 'app' and a[1].startswith('new:'):
                    return self.repo.cls(a[1][4:])
                if a[0] == 'app' and a[1].startswith('call:') and a[1].endswith('.copy'):
                    # X.copy() has the class of X
                    for pr in a[2]:
                        if isinstance(pr, Tup) and pr.items[0] == Const('self'):
                            return self.class_of(pr.items[1])
                if a[0] == 'fresh' and a in self.types:
                    return self.types[a]
                # element of Wavefront.data is a Field
                if a[0] == 'idx' and a[1][0] == 'attr' and a[1][2] == 'data':
                    owner = self.class_of(Poly.atom(a[1][1]))
                    if owner is not None and owner.key == 'wavefront.Wavefront':
                        return self.repo.cls('field.Field')
        return None

    def load_attr(self, base, name, st, node):
        if isinstance(base, Poly):
            ba = base.single_atom()
            if ba is not None and ba[0] == 'app' and ba[1].startswith('call:') and self.repo.has_func(ba[1][5:]):
                # the result of a package function that returns a namedtuple: .field is item k of the returned tuple
                from .interp import returned_namedtuple_fields
                fl = returned_namedtuple_fields(self.repo, self.repo.func(ba[1][5:]))
                if fl is not None and name in fl:
                    return nf.index(base, Poly.const(fl.index(name)))
        if isinstance(base, Const) and isinstance(base.value, tuple) and base.value[0] == 'module':
            tgt = self.repo.resolve_dotted(f'lentil.{base.value[1]}.{name}')
            return self.target_value(tgt, name)
        if isinstance(base, Const) and isinstance(base.value, tuple) and base.value and base.value[0] == 'enum' and name in ('value', 'name'):
            # member.value / member.name of an enum.Enum member
            _, ckey, mname = base.value
            if name == 'name':
                return Const(mname)
            val = self.repo.cls(ckey).class_attrs.get(mname)
            if isinstance(val, ast.Constant):
                return self.e_Constant(val, None)
        if isinstance(base, Const) and isinstance(base.value, ClassInfo):
            if _is_enum(base.value) and name in base.value.class_attrs and not name.startswith('_'):
                return Const(('enum', base.value.key, name))        # Color.RED: the member itself
            f = base.value.find_method(name)
            if f is not None:
                return Const(('unbound', f))
            for c in base.value.mro():
                # NAME = 'literal' in the class body: the attribute of a class passed around as a value is that literal
                val = c.class_attrs.get(name)
                if val is not None:
                    if isinstance(val, ast.Constant) and isinstance(val.value, (str, int, float, bool)):
                        return self.e_Constant(val, None)
                    if isinstance(val, (ast.Dict, ast.Tuple, ast.List)) and _table_expr(val):
                        # a constant table kept on the class: read by value
                        prev, self.cur = self.cur, _ModuleScope(c.module, self.cur)
                        try:
                            from .state import State
                            return self._eval_module_value(val, State())
                        except Exception:
                            pass
                        finally:
                            self.cur = prev
                    break
            return app('classattr', P(base), Const(name))
        if isinstance(base, Slice):
            if name in ('start', 'stop', 'step'):
                return {'start': base.lo, 'stop': base.hi, 'step': base.step}[name]
        if isinstance(base, Tup):
            from .interp import NT_FIELDS
            if name in NT_FIELDS.get(base.key, ()):
                return base.items[NT_FIELDS[base.key].index(name)]
            if base.key not in NT_FIELDS and name not in ('shape', 'size', 'ndim', 'T', 'dtype', 'real', 'imag'):
                # a namedtuple whose items were rewritten since it was built (an element of a comprehension): the field is
                # found through the class - when exactly one namedtuple class of the package has it at this length
                from .interp import namedtuple_fields
                cands = set()
                for m_ in self.repo.modules.values():
                    for cn in list(getattr(m_, 'classes', {})) + [g_ for g_ in getattr(m_, 'globals', {})]:
                        fl = namedtuple_fields(m_, cn)
                        if fl and name in fl and len(fl) == len(base):
                            cands.add(tuple(fl))
                if len(cands) == 1:
                    return base.items[list(cands)[0].index(name)]
            if name == 'shape':
                return Tup([Poly.const(len(base))])
            if name == 'size':
                return Poly.const(len(base))
            if name == 'ndim' and all(isinstance(i, (Poly, Const)) for i in base.items):
                return Poly.const(1)
            if name == 'T':
                return base
        if name in ('size', 'shape') and isinstance(base, Poly) and base.single_atom() is not None:
            ba = base.single_atom()
            if ba[0] == 'app' and ba[1] in ('fft.fftfreq', 'fft.rfftfreq', 'arange') and len(ba[2]) >= 1 and isinstance(ba[2][0], Poly) \
                    and (ba[1] == 'fft.fftfreq' or len(ba[2]) == 1) and not any(isinstance(x, Tup) and x.kind == 'kw' for x in ba[2][:1]):
                # np.fft.fftfreq(n) and np.arange(n) have n samples
                return ba[2][0] if name == 'size' else Tup([ba[2][0]])
        if isinstance(base, Poly) and base.const_value() is not None:
            if name == 'size':
                return Poly.const(1)
            if name == 'ndim':
                return Poly.const(0)
            if name == 'shape':
                return Tup([])
        if name == 'ndim' and isinstance(base, Poly) and base.single_atom() is not None and base.single_atom()[0] == 'idx':
            ba = base.single_atom()
            inner = self.apply_facts(nf.attr(Poly.atom(ba[1]), 'ndim'))
            items = ba[2].items if isinstance(ba[2], Tup) and ba[2].kind != 'vec' else (ba[2],)
            if isinstance(inner, Poly) and inner.const_value() is not None and \
                    all(isinstance(i, (Slice, Const)) or (isinstance(i, Poly) and i.const_value() is not None) for i in items):
                n_new = sum(1 for i in items if isinstance(i, Const) and i.value is None)
                n_int = sum(1 for i in items if isinstance(i, Poly))
                return inner + n_new - n_int
        if name == 'ndim' and isinstance(base, Poly) and base.single_atom() is not None and base.single_atom()[0] == 'app' and \
                base.single_atom()[1] in ('atleast_1d', 'atleast_2d', 'atleast_3d', 'numpy.atleast_1d', 'numpy.atleast_2d', 'numpy.atleast_3d') \
                and base.single_atom()[2] and isinstance(base.single_atom()[2][0], Poly):
            ba = base.single_atom()
            least = int(ba[1].rstrip('d')[-1])
            inner = self.load_attr(ba[2][0], 'ndim', st, node)
            if isinstance(inner, Poly) and inner.const_value() is not None:
                return Poly.const(max(int(inner.const_value()), least))
        pb = P(base)
        at = nf.attr(pb, name)
        key = at.single_atom()
        if key in st.heap:
            return st.heap[key]
        if key in getattr(self, 'global_heap', {}):
            return self.global_heap[key]          # a field of a record built by a module-level table
        if name == 'T':
            return app('T', pb)
        if name in ('real', 'imag'):
            return app(name, pb)
        cls = self.class_of(base)
        if cls is not None:
            f = cls.find_method(name)
            if f is not None and f.is_property:
                self.log_call(st, f, {'self': base}, node, via='property')
                if self.should_inline(f, auto_simple=True):
                    return self.inline(f, {'self': base}, st, node)
                return at
            if f is not None:
                return Const(('bound', f, base))
            if name not in cls.attr_names():
                self.note(st, 'B1', node, what=f'{cls.key} has no attribute {name!r}')
        return at

    # -------------------------------------------------------------- subscript
    def e_Subscript(self, node, st):
        base_node = node.value
        d = dotted(base_node)
        if d is not None and d.split('.')[0] not in st.env:
            tgt = self.repo.resolve_name(self.cur.module, d)
            if isinstance(tgt, tuple) and tgt[0] == 'ext' and tgt[1] in ('numpy.s_', 'numpy.index_exp'):
                return self.eval(node.slice, st)
            if isinstance(tgt, tuple) and tgt[0] == 'ext' and tgt[1] in ('numpy.mgrid', 'numpy.ogrid'):
                key = self.eval(node.slice, st)
                items = key.items if isinstance(key, Tup) else (key,)
                return Tup([app(tgt[1].split('.')[1], *items, Poly.const(k)) for k in range(len(items))])
        base = self.eval(base_node, st)
        key = self.eval(node.slice, st)
        if isinstance(base, Poly) and base.single_atom() is not None and isinstance(key, Poly) and key.const_value() is not None:
            # a NamedTuple record answers to positions as well as to names
            from .interp import RECORD_FIELDS
            fields = RECORD_FIELDS.get(base.single_atom())
            if fields and key.const_value().denominator == 1 and -len(fields) <= int(key.const_value()) < len(fields):
                slot = nf.attr(base, fields[int(key.const_value())]).single_atom()
                if slot in st.heap:
                    return st.heap[slot]
        return self.load_index(base, key)

    def load_index(self, base, key):
        if isinstance(key, Const) and isinstance(key.value, bool) and (
                isinstance(base, Tup) or (isinstance(base, Poly) and base.single_atom() is not None and base.single_atom()[0] == 'sym')):
            key = Poly.const(int(key.value))        # seq[True] is seq[1], seq[False] is seq[0]
        if isinstance(base, Tup):
            if isinstance(key, Poly) and key.const_value() is not None:
                i = int(key.const_value())
                if -len(base) <= i < len(base):
                    return base.items[i]
            if isinstance(key, Slice):
                g = lambda x: None if x == NONE else (int(x.const_value())
                                                      if isinstance(x, Poly) and x.const_value() is not None else 'x')
                lo, hi, stp = g(key.lo), g(key.hi), g(key.step)
                if 'x' not in (lo, hi, stp):
                    return Tup(base.items[slice(lo, hi, stp)], base.kind)
        if isinstance(base, Poly) and base.const_value() is not None:
            return base     # a 0-d value can only be indexed by () / Ellipsis, which returns it
        if isinstance(base, Poly) and base.single_atom() is None and isinstance(key, Poly) and key.const_value() is not None \
                and key.const_value().denominator == 1 and key.const_value() >= 0:
            # (x.shape / 2)[k] is x.shape[k] / 2: arithmetic on an un-indexed .shape is element-wise
            from .npmodel import _shape_vector_elem
            r_ = _shape_vector_elem(base, int(key.const_value()))
            if r_ != base:
                return r_
        if isinstance(base, Poly) and isinstance(key, Poly):
            ba = base.single_atom()
            if ba is not None and ba[0] == 'app' and ba[1] == 'arange' and all(isinstance(x, Poly) for x in ba[2]):
                # arange(n)[k] = k ; arange(a, b)[k] = a + k ; arange(a, b, c)[k] = a + k*c   (k >= 0)
                ar = ba[2]
                if len(ar) == 1:
                    return key
                if len(ar) == 2:
                    return ar[0] + key
                if len(ar) == 3:
                    return ar[0] + key * ar[2]
        if isinstance(base, Poly):
            a = base.single_atom()
            if a is not None and a[0] == 'app' and a[1] == 'dict' and isinstance(key, (Const, Poly)):
                for pair in a[2]:
                    if isinstance(pair, Tup) and pair.items[0] == key:
                        return pair.items[1]
        return nf.index(P(base), key)

    def e_NamedExpr(self, node, st):
        v = self.eval(node.value, st)
        st.env[node.target.id] = v
        return v
