"""Table extraction (engine T): RST grid/simple tables and AST literals."""
import ast
import os
import re

from .model import AnalysisError, dotted


def _read(repo, rel):
    p = os.path.join(repo.root, rel)
    if not os.path.exists(p):
        raise AnalysisError(f'documentation file {rel} not found')
    with open(p, encoding='utf-8') as fh:
        return fh.read().splitlines()


def _clean(cell):
    return cell.replace('``', '').replace('`', '').strip()


def rst_section(lines, title):
    for i, l in enumerate(lines):
        if l.strip() == title and i + 1 < len(lines) and set(lines[i + 1].strip()) <= set('=-~^"') \
                and lines[i + 1].strip():
            return lines[i + 2:]
    raise AnalysisError(f'section {title!r} not found in documentation')


def grid_table(lines):
    """First RST grid table in lines -> list of rows (list of cell strings).
    Rows are split on '|' ; spanning header cells are kept as they come."""
    rows, started = [], False
    for l in lines:
        s = l.rstrip()
        if s.startswith('+') and set(s) <= set('+-= '):
            started = True
            continue
        if started and s.startswith('|'):
            rows.append([_clean(c) for c in s.strip().strip('|').split('|')])
        elif started and not s.startswith(('|', '+')):
            break
    if not rows:
        raise AnalysisError('no grid table found')
    return rows


def simple_table(lines, header_first_word):
    """RST simple table whose header row starts with header_first_word ->
    (header cells, rows) using the ruler columns."""
    for i, l in enumerate(lines):
        if set(l.strip()) == {'=', ' '} and i + 2 < len(lines) \
                and lines[i + 1].strip().lower().startswith(header_first_word.lower()):
            ruler = l
            cols = [(m.start(), m.end()) for m in re.finditer(r'=+', ruler)]

            def cut(s):
                out = []
                for k, (a, b) in enumerate(cols):
                    out.append(s[a:] if k == len(cols) - 1 else s[a:cols[k + 1][0]])
                return [c.strip() for c in out]
            header = cut(lines[i + 1])
            rows = []
            j = i + 3
            while j < len(lines) and set(lines[j].strip()) != {'=', ' '} and lines[j].strip():
                rows.append(cut(lines[j]))
                j += 1
            return header, rows
    raise AnalysisError(f'simple table with header {header_first_word!r} not found')


PTYPES = ('none', 'pupil', 'image', 'tilt', 'transform')


def doc_mul_table(repo):
    """{(wavefront ptype, plane ptype): result ptype or None (not allowed)}"""
    lines = rst_section(_read(repo, 'docs/user/fundamentals/wavefront.rst'), 'Multiplication rules')
    rows = grid_table(lines)
    header = None
    out = {}
    for r in rows:
        cells = [c for c in r]
        if header is None:
            names = [c for c in cells if c in PTYPES]
            if len(names) >= 2 and (cells[0] == '' or cells[0] not in PTYPES):
                header = names
            continue
        if cells[0] in PTYPES and len(cells) == len(header) + 1:
            for w, c in zip(header, cells[1:]):
                if c.lower().startswith('not allowed'):
                    out[(w, cells[0])] = None
                elif c in PTYPES:
                    out[(w, cells[0])] = c
                else:
                    raise AnalysisError(f'unreadable cell {c!r} in the multiplication-rules table')
    if header is None or not out:
        raise AnalysisError('multiplication-rules table not understood')
    return header, out


def doc_class_ptypes(repo):
    """{class name: ptype} from the 'Planes with this type' table."""
    header, rows = simple_table(_read(repo, 'docs/user/fundamentals/planes.rst'), 'ptype')
    out = {}
    for r in rows:
        m = re.search(r'`(\w+)`', r[0])
        if not m or m.group(1) not in PTYPES:
            continue
        for cname in re.findall(r'~lentil\.(\w+)', r[1]):
            out[cname] = m.group(1)
    if not out:
        raise AnalysisError('class/ptype table not understood')
    return out


def doc_propagation(repo):
    """{wavefront ptype: resulting plane ptype} for rows whose method is a
    far-field propagation; ptypes listed as unsupported map to None."""
    header, rows = simple_table(_read(repo, 'docs/user/fundamentals/diffraction.rst'), 'Wavefront')
    out = {}
    for r in rows:
        w, p, method = _clean(r[0]), _clean(r[1]), r[2]
        if 'propagate_dft' in method or 'propagate_fft' in method:
            out[w] = p
        elif 'not supported' in method.lower():
            out[w] = None
    if not out:
        raise AnalysisError('propagation table not understood')
    return out


def ptype_of_node(node):
    d = dotted(node)
    if d and d.startswith('lentil.') and d.split('.')[1] in PTYPES:
        return d.split('.')[1]
    return None


def mul_table_name(repo):
    """Name of the module-level multiplication table in plane.py: `_mul_ptype_table`, or - if it was renamed - the only
    module-level dict literal that maps plane types to dicts of plane types."""
    m = repo.modules['plane']
    if isinstance(m.globals.get('_mul_ptype_table'), ast.Dict):
        return '_mul_ptype_table'
    cands = [nm for nm, node in m.globals.items() if isinstance(node, ast.Dict) and node.keys and
             all(k is not None and ptype_of_node(k) for k in node.keys) and all(isinstance(v, ast.Dict) for v in node.values)]
    if len(cands) == 1:
        return cands[0]
    raise AnalysisError('plane._mul_ptype_table: the multiplication table (a dict literal keyed by plane types) was not found')


def code_mul_table(repo):
    m = repo.modules['plane']
    node = m.globals.get(mul_table_name(repo))
    if not isinstance(node, ast.Dict):
        raise AnalysisError('plane._mul_ptype_table is not a dict literal')
    out = {}
    for wk, wv in zip(node.keys, node.values):
        w = ptype_of_node(wk)
        if w is None or not isinstance(wv, ast.Dict):
            raise AnalysisError('plane._mul_ptype_table: unreadable outer entry')
        for pk, pv in zip(wv.keys, wv.values):
            p, r = ptype_of_node(pk), ptype_of_node(pv)
            if p is None or r is None:
                raise AnalysisError('plane._mul_ptype_table: unreadable inner entry')
            out[(w, p)] = (r, pv.lineno)
    return out
