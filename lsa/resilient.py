"""Section-wise execution of a property module's ``run``.

On the tree the rules were written against (module digests pinned in
specs/known_functions.json) a rule that cannot be applied is an analysis error
(exit 2, fail closed) and so is a clause that matches fewer constructs than were
confirmed by hand.  On any *other* tree the same events only mean that this rule
no longer recognises the code: the statement of ``run`` that raised is recorded as
an UNDECIDED obligation of its clause and the remaining statements still run, so
that one unrecognised construct does not silence (or break) every other rule of the
property."""
import ast
import hashlib
import inspect
import json
import os
import re
import traceback

from .model import AnalysisError


def module_digests(repo):
    out = {}
    for name, m in sorted(repo.modules.items()):
        try:
            with open(os.path.join(repo.root, m.relpath), encoding='utf-8') as fh:
                tree = ast.parse(fh.read())
        except (OSError, SyntaxError):
            continue
        out[name] = hashlib.sha256(ast.dump(tree).encode()).hexdigest()
    return out


def pinned_tree(repo):
    """True when every module of the package has the syntax tree the rules were written against."""
    path = os.path.join(os.path.dirname(os.path.dirname(os.path.abspath(__file__))), 'specs', 'known_functions.json')
    try:
        with open(path) as fh:
            want = json.load(fh).get('digests')
    except OSError:
        return True
    if not want:
        return True
    return module_digests(repo) == want


def run_sections(mod, chk, repo, tier, strict, fname='run'):
    """Execute the statements of ``mod.<fname>(chk, repo, tier)`` one by one in a shared namespace."""
    if strict:
        return getattr(mod, fname)(chk, repo, tier)
    tree = ast.parse(inspect.getsource(mod))
    fns = [n for n in tree.body if isinstance(n, ast.FunctionDef) and n.name == fname]
    if not fns:
        return getattr(mod, fname)(chk, repo, tier)
    ns = dict(mod.__dict__)
    ns.update(chk=chk, repo=repo, tier=tier)
    failed = False
    last_clause = f'{chk.prop_id}-a'
    for stmt in fns[-1].body:
        ids = [n.value for n in ast.walk(stmt) if isinstance(n, ast.Constant) and isinstance(n.value, str)
               and re.fullmatch(r'C\d\d-\w', n.value)]
        # a statement that delegates to another sectioned driver (C01.run -> run_check)
        if isinstance(stmt, ast.Expr) and isinstance(stmt.value, ast.Call) and isinstance(stmt.value.func, ast.Name) \
                and stmt.value.func.id in getattr(mod, 'SECTIONED', ()):
            run_sections(mod, chk, repo, tier, strict, fname=stmt.value.func.id)
            continue
        code = compile(ast.fix_missing_locations(ast.Module(body=[stmt], type_ignores=[])), mod.__file__, 'exec')
        assigned = {n.id for n in ast.walk(stmt) if isinstance(n, ast.Name) and isinstance(n.ctx, ast.Store)} - {'chk', 'repo', 'tier'}
        try:
            exec(code, ns)
        except AnalysisError as e:
            failed = True
            for nm in assigned:
                ns.pop(nm, None)        # what this statement was to define must not be read from an earlier section
            cl = ids[0] if ids else last_clause
            chk.undecided(cl, 'applicability', f'{mod.__name__.rsplit(".", 1)[-1]}:{stmt.lineno}', 'rule applicable to this code',
                          f'not decided: {e}', '')
        except (NameError, KeyError, AttributeError, IndexError, TypeError, ValueError, AssertionError) as e:
            if isinstance(e, NameError) and not failed:
                raise
            failed = True
            for nm in assigned:
                ns.pop(nm, None)
            cl = ids[0] if ids else last_clause
            tb = traceback.extract_tb(e.__traceback__)[-1]
            chk.undecided(cl, 'applicability', f'{mod.__name__.rsplit(".", 1)[-1]}:{stmt.lineno}', 'rule applicable to this code',
                          f'not decided: the rule does not recognise this code ({type(e).__name__}: {str(e)[:120]} at '
                          f'{os.path.basename(tb.filename)}:{tb.lineno})', '')
        if ids:
            last_clause = ids[-1]


def run_nested(mod, chk, repo, tier, fname='run'):
    """Run another property's driver on behalf of this one (its obligations routed through a Remap): section by section on
    a tree other than the pinned one, so that one rule of the other property that no longer applies does not silence the
    rules that come after it."""
    strict = getattr(chk, 'strict', True)
    return run_sections(mod, chk, repo, tier, strict, fname=fname)
