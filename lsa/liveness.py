"""Rule-liveness run (thorough tier): every catalogued variant of the current
tree is checked on a scratch copy - 'fire' variants must be reported by the
named clause, 'silent' (behaviour-preserving) variants must pass."""
import concurrent.futures as cf
import json
import os
import shutil
import subprocess
import sys
import tempfile

from .model import repo_root
from .report import VERIF


LAST = {}


def load_catalog():
    path = os.path.join(VERIF, 'variants', 'catalog.json')
    cat = []
    if os.path.exists(path):
        with open(path) as fh:
            cat = json.load(fh)
    # independently seeded changes kept under /verif/seeded are regression variants too
    sdir = os.path.join(VERIF, 'seeded')
    if os.path.isdir(sdir):
        for d in sorted(os.listdir(sdir)):
            mp = os.path.join(sdir, d, 'meta.json')
            pp = os.path.join(sdir, d, 'patch.diff')
            if os.path.exists(mp) and os.path.exists(pp):
                with open(mp) as fh:
                    meta = json.load(fh)
                props = sorted(meta.get('checks_that_report_it', {}))
                if props:
                    cat.append({'id': 'seeded:' + d, 'props': props, 'expect': 'fire', 'patch': pp,
                                'clauses': {p: p + '-' for p in props}, 'edits': []})
    # behaviour-preserving refactorings (written independently, equivalence demonstrated, suite green):
    # every check whose modules they touch must stay silent on them
    rdir = os.path.join(VERIF, 'variants', 'refactors')
    if os.path.isdir(rdir):
        from .props.common import PROPERTY_MODULES
        for d in sorted(os.listdir(rdir)):
            pp = os.path.join(rdir, d, 'patch.diff')
            if not os.path.exists(pp):
                continue
            with open(pp, encoding='utf-8') as fh:
                touched = {ln.split('/')[-1].strip()[:-3] for ln in fh if ln.startswith('+++ ') and ln.strip().endswith('.py')}
            props = sorted(p for p, mods in PROPERTY_MODULES.items() if touched & set(mods))
            if touched and 'C10' not in props:
                props.append('C10')
            if props:
                cat.append({'id': 'refactor:' + d, 'props': props, 'expect': 'silent', 'patch': pp, 'edits': []})
    return cat


def apply_variant(root, v):
    """Apply the textual edits of ``v`` under ``root``; False if an anchor is gone."""
    if v.get('patch'):
        r = subprocess.run(['git', 'apply', v['patch']], cwd=root, capture_output=True, text=True)
        return r.returncode == 0
    for ed in v['edits']:
        p = os.path.join(root, ed['file'])
        if not os.path.exists(p):
            return False
        with open(p, encoding='utf-8') as fh:
            src = fh.read()
        cnt = src.count(ed['find'])
        if cnt == 0 or (cnt > 1 and not ed.get('all')):
            return False
        src = src.replace(ed['find'], ed['replace']) if ed.get('all') else src.replace(ed['find'], ed['replace'], 1)
        with open(p, 'w', encoding='utf-8') as fh:
            fh.write(src)
    return True


def make_copy(src_root):
    tmp = tempfile.mkdtemp(prefix='lsa-variant-')
    shutil.copytree(os.path.join(src_root, 'lentil'), os.path.join(tmp, 'lentil'),
                    ignore=shutil.ignore_patterns('__pycache__'))
    docs = os.path.join(src_root, 'docs', 'user', 'fundamentals')
    dst = os.path.join(tmp, 'docs', 'user', 'fundamentals')
    os.makedirs(dst)
    for fn in os.listdir(docs):
        if fn.endswith('.rst'):
            shutil.copy(os.path.join(docs, fn), dst)
    return tmp


def run_variant(v, props=None):
    src_root = repo_root()
    tmp = make_copy(src_root)
    try:
        if not apply_variant(tmp, v):
            return v, 'skipped', 'anchor text not present in the current tree'
        env = dict(os.environ, LENTIL_REPO=tmp, LSA_EVIDENCE_DIR=os.path.join(tmp, 'evidence'),
                   LSA_NO_LIVENESS='1', PYTHONPATH=VERIF)
        results = []
        for pid in (props or v['props']):
            r = subprocess.run([sys.executable, '-m', 'lsa', pid, '--tier', 'quick'], cwd=VERIF, env=env,
                               capture_output=True, text=True)
            results.append((pid, r.returncode, r.stdout + r.stderr))
        return v, 'ran', results
    finally:
        shutil.rmtree(tmp, ignore_errors=True)


def judge(v, results, undecided=()):
    """-> (ok, message); a fire variant aimed at a clause that is undecided on the tree under test (the rule does not
    recognise how this tree does it) cannot be expected to fire and is reported as not applicable"""
    if v['expect'] == 'silent':
        bad = [(pid, rc) for pid, rc, out in results if rc != 0]
        return (not bad, f'behaviour-preserving variant alarmed: {bad}' if bad else 'silent')
    msgs = []
    for pid, rc, out in results:
        want = v.get('clauses', {}).get(pid) if isinstance(v.get('clauses'), dict) else v.get('clause')
        fired = rc == 1 and 'VIOLATION property=' + pid in out
        if fired and want:
            fired = any((w in out) for w in ([want] if isinstance(want, str) else want))
        if not fired:
            wants = [want] if isinstance(want, str) else list(want or [])
            if rc == 0 and undecided and any(u.startswith(w) or w.startswith(u) for u in undecided for w in wants):
                continue
            msgs.append(f'{pid}: rc={rc}, expected a VIOLATION naming {want}')
    return (not msgs, '; '.join(msgs) or 'fired')


def run(pid=None, jobs=None, verbose=False, undecided=()):
    cat = [v for v in load_catalog() if pid is None or pid in v['props']]
    if not cat:
        print(f'liveness: no variants catalogued for {pid}')
        return 0
    jobs = jobs or min(16, os.cpu_count() or 4)
    dead = skipped = 0
    with cf.ThreadPoolExecutor(max_workers=jobs) as ex:
        futs = [ex.submit(run_variant, v, [pid] if pid else None) for v in cat]
        for fu in futs:
            v, status, res = fu.result()
            if status == 'skipped':
                skipped += 1
                print(f'liveness: variant {v["id"]} skipped ({res})')
                continue
            ok, msg = judge(v, res, undecided)
            if not ok:
                dead += 1
                print(f'LIVENESS-FAIL variant={v["id"]} ({v["expect"]}): {msg}')
                if verbose:
                    for _, _, out in res:
                        print(out)
            elif verbose:
                print(f'liveness: variant {v["id"]} ok ({msg})')
    print(f'liveness: {len(cat)} variants, {dead} failed, {skipped} skipped')
    LAST.clear()
    LAST.update({'variants': len(cat), 'fire_variants': sum(1 for v in cat if v['expect'] == 'fire'),
                 'silent_variants': sum(1 for v in cat if v['expect'] == 'silent'),
                 'seeded_regressions': sum(1 for v in cat if v['id'].startswith('seeded:')),
                 'failed': dead, 'skipped_anchor_gone': skipped,
                 'sample_variants': [v['id'] for v in cat[:12]]})
    if dead:
        print(f'ANALYSIS-ERROR property={pid}: rule-liveness run failed ({dead} variants)')
        return 2
    return 0


if __name__ == '__main__':
    import argparse
    ap = argparse.ArgumentParser()
    ap.add_argument('prop', nargs='?')
    ap.add_argument('-v', action='store_true')
    a = ap.parse_args()
    sys.exit(run(a.prop.upper() if a.prop else None, verbose=a.v))
