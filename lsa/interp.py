"""Abstract interpreter over the term domain: statements, calls, inlining."""
import ast

from . import nf
from .nf import Poly, Tup, Const, Slice, app, NONE
from .model import FuncInfo, ClassInfo, dotted, AnalysisError
from .npmodel import HANDLERS, ARRAY_METHODS_MUTATE, P, arith
from .state import State, Path, Event, Fork, PathLimit, fresh_id
from .expr import ExprMixin, truth


STATS = {'functions': set(), 'runs': 0, 'paths': 0, 'calls_internal': 0, 'calls_external': 0, 'calls_unresolved': 0}


_KNOWN = None


NT_FIELDS = {}          # key of a tuple value built by a namedtuple class -> its field names


def namedtuple_fields(module, name):
    """field names when the module-level `name` is bound to collections.namedtuple('X', fields)"""
    cls = getattr(module, 'classes', {}).get(name)
    if cls is not None and any((b or '').split('.')[-1] == 'NamedTuple' for b in cls.base_exprs) and not cls.methods:
        # class X(NamedTuple): a: T; b: T
        fields = [n_.target.id for n_ in cls.node.body if isinstance(n_, ast.AnnAssign) and isinstance(n_.target, ast.Name)]
        if fields and not any(isinstance(n_, ast.AnnAssign) and n_.value is not None for n_ in cls.node.body):
            return tuple(fields)
        return None
    val = module.globals.get(name)
    if not isinstance(val, ast.Call):
        return None
    d = dotted(val.func) or ''
    if d.split('.')[-1] != 'namedtuple' or len(val.args) < 2:
        return None
    f = val.args[1]
    if isinstance(f, (ast.List, ast.Tuple)) and all(isinstance(e, ast.Constant) and isinstance(e.value, str) for e in f.elts):
        return tuple(e.value for e in f.elts)
    if isinstance(f, ast.Constant) and isinstance(f.value, str):
        return tuple(f.value.replace(',', ' ').split())
    return None


def returned_namedtuple_fields(repo, fi):
    """field names when every `return` of the function builds the same module-level namedtuple"""
    found = set()
    for n in ast.walk(fi.node):
        if isinstance(n, ast.Return):
            if not (isinstance(n.value, ast.Call) and isinstance(n.value.func, ast.Name)):
                return None
            fl = namedtuple_fields(fi.module, n.value.func.id)
            if fl is None:
                return None
            found.add(fl)
    return found.pop() if len(found) == 1 else None


RECORD_FIELDS = {}       # object atom of a record instance -> its field names in order


def record_fields(cls):
    """[(field, default node or None)] when instances of `cls` are records with a generated constructor: a dataclass, or a
    typing.NamedTuple subclass (one that has methods; plain ones are handled as tuples)"""
    decos = [d_ for d_ in (dotted(x.func if isinstance(x, ast.Call) else x) for x in cls.node.decorator_list) if d_]
    is_dc = any(d_.split('.')[-1] == 'dataclass' for d_ in decos)
    is_nt = any((b or '').split('.')[-1] == 'NamedTuple' for b in cls.base_exprs)
    if not (is_dc or is_nt):
        return None
    out = []
    for k in reversed(cls.mro()):
        for n_ in k.node.body:
            if isinstance(n_, ast.AnnAssign) and isinstance(n_.target, ast.Name):
                ann = ast.unparse(n_.annotation)
                if 'ClassVar' in ann:
                    continue
                out = [(a, b) for a, b in out if a != n_.target.id] + [(n_.target.id, n_.value)]
    return out


class _ClassScope:
    """name resolution of a default value written in a class body: the module of the class"""
    def __init__(self, cls, base):
        self.module, self.key, self.name, self.qualname, self.cls = cls.module, cls.key, cls.name, cls.name, None

    def __getattr__(self, name):
        return None


def known_functions():
    global _KNOWN
    if _KNOWN is None:
        import json
        import os
        path = os.path.join(os.path.dirname(os.path.dirname(os.path.abspath(__file__))), 'specs', 'known_functions.json')
        try:
            with open(path) as fh:
                _KNOWN = set(x.replace('#setter', '') for x in json.load(fh)['functions'])
        except OSError:
            _KNOWN = set()
    return _KNOWN


def _is_generator(node):
    for n in ast.walk(node):
        if isinstance(n, (ast.Yield, ast.YieldFrom)):
            return True
    return False


_MATERIALISED = {}


def _materialised(f):
    """the generator function `f` as a plain function that returns the list of the values it yields (None when a yield is
    used as an expression)"""
    import copy as _copy
    if f.key in _MATERIALISED:
        return _MATERIALISED[f.key]
    node = _copy.deepcopy(f.node)
    ok = [True]
    acc = '__yielded__'

    def call(method, value, at):
        c = ast.Expr(value=ast.Call(func=ast.Attribute(value=ast.Name(id=acc, ctx=ast.Load()), attr=method, ctx=ast.Load()),
                                    args=[value], keywords=[]))
        return ast.fix_missing_locations(ast.copy_location(c, at))

    class T(ast.NodeTransformer):
        def visit_FunctionDef(self, n):
            if n is not node:
                return n            # a nested function keeps its own yields
            self.generic_visit(n)
            return n

        def visit_Lambda(self, n):
            return n

        def visit_Expr(self, n):
            if isinstance(n.value, ast.Yield):
                v = n.value.value if n.value.value is not None else ast.Constant(value=None)
                return call('append', v, n)
            if isinstance(n.value, ast.YieldFrom):
                return call('extend', n.value.value, n)
            return n

        def visit_Return(self, n):
            return ast.copy_location(ast.Return(value=ast.Name(id=acc, ctx=ast.Load())), n)
    T().visit(node)
    if any(isinstance(x, (ast.Yield, ast.YieldFrom)) for x in ast.walk(node)):
        ok[0] = False
    if ok[0]:
        first = node.body[0] if node.body else node
        init = ast.copy_location(ast.Assign(targets=[ast.Name(id=acc, ctx=ast.Store())], value=ast.List(elts=[], ctx=ast.Load())), first)
        last = node.body[-1] if node.body else node
        fin = ast.copy_location(ast.Return(value=ast.Name(id=acc, ctx=ast.Load())), last)
        node.body = [init] + node.body + [fin]
        ast.fix_missing_locations(node)
        g = FuncInfo(f.module, f.qualname, node, cls=f.cls)
    else:
        g = None
    _MATERIALISED[f.key] = g
    return g


class BindError(Exception):
    pass


def assigned_names(stmts):
    """Names (re)bound anywhere inside a statement list (not nested defs)."""
    out = []

    def tgt(t):
        if isinstance(t, ast.Name):
            out.append(t.id)
        elif isinstance(t, (ast.Tuple, ast.List)):
            for e in t.elts:
                tgt(e)
        elif isinstance(t, ast.Starred):
            tgt(t.value)
        elif isinstance(t, ast.Subscript):
            b = t.value
            while isinstance(b, ast.Subscript):
                b = b.value
            if isinstance(b, ast.Name):
                out.append(b.id)

    def walk(ss):
        for s in ss:
            if isinstance(s, ast.Assign):
                for t in s.targets:
                    tgt(t)
            elif isinstance(s, (ast.AugAssign, ast.AnnAssign)):
                tgt(s.target)
            elif isinstance(s, (ast.For, ast.AsyncFor)):
                tgt(s.target)
                walk(s.body)
                walk(s.orelse)
            elif isinstance(s, (ast.While, ast.If)):
                walk(s.body)
                walk(s.orelse)
            elif isinstance(s, ast.With):
                for it in s.items:
                    if it.optional_vars is not None:
                        tgt(it.optional_vars)
                walk(s.body)
            elif isinstance(s, ast.Try):
                walk(s.body)
                for h in s.handlers:
                    walk(h.body)
                walk(s.orelse)
                walk(s.finalbody)
            elif isinstance(s, ast.Expr) and isinstance(s.value, ast.Call):
                f = s.value.func
                if isinstance(f, ast.Attribute) and isinstance(f.value, ast.Name) \
                        and f.attr in ARRAY_METHODS_MUTATE:
                    out.append(f.value.id)
                for k in s.value.keywords:
                    if k.arg == 'out' and isinstance(k.value, ast.Name):
                        out.append(k.value.id)
    walk(stmts)
    return list(dict.fromkeys(out))


class Interp(ExprMixin):
    def __init__(self, repo, inline=(), types=None, facts=None, max_paths=256, max_depth=4,
                 symbolic_globals=False, inline_ctor=(), unroll=False, literal_tables=False):
        self.repo = repo
        self.literal_tables = literal_tables        # module-level literal dict / tuple tables are read by value
        self.inline_set = set(inline)
        self.inline_ctor = set(inline_ctor)
        self.types = dict(types or {})       # atom -> ClassInfo
        self.facts = dict(facts or {})       # atom -> value
        self.max_paths = max_paths
        self.max_depth = max_depth
        self.symbolic_globals = symbolic_globals
        self.stack = []
        self.cur = None
        self.loop_depth = 0
        self.pending_out = None
        self.unroll = unroll

    # ------------------------------------------------------------------ public
    def run(self, func, args=None, config=None):
        """Enumerate the syntactic paths of ``func``.  ``args`` presets
        parameter values; ``config`` is the same thing under another name."""
        preset = dict(args or {})
        preset.update(config or {})
        st = State()
        for name, default, kind in func.params():
            known_as = func.old_name(name)          # renamed parameters keep the name the rules use
            if known_as in preset or name in preset:
                st.env[name] = preset[known_as] if known_as in preset else preset[name]
            elif kind == 'vararg':
                st.env[name] = nf.sym('*' + known_as)
            elif kind == 'kwarg':
                st.env[name] = nf.sym('**' + known_as)
            else:
                st.env[name] = nf.sym(known_as)
        if func.cls is not None and not func.is_static and func.params():
            first = func.params()[0][0]
            a = st.env[first].single_atom() if isinstance(st.env[first], Poly) else None
            if a is not None and a not in self.types and not func.is_classmethod:
                self.types[a] = func.cls
        return self.run_body(func, st)

    def run_body(self, func, st):
        prev = self.cur
        self.cur = func
        self.stack.append(func.key)
        try:
            cont, done = self.exec_block(func.node.body, [st])
            for s in cont:
                done.append(Path('fall', NONE, s))
            STATS['functions'].add(func.key)
            STATS['runs'] += 1
            STATS['paths'] += len(done)
            return done
        finally:
            self.stack.pop()
            self.cur = prev

    # ---------------------------------------------------------------- logging
    def owner_key(self):
        """The function the current code belongs to from the rules' point of view: helpers that did not
        exist when the rules were written (and closures) belong to their caller."""
        known = known_functions()
        for k in reversed(self.stack):
            if k in known and '<locals>' not in k and '<lambda>' not in k:
                return k
        return self.stack[0] if self.stack else self.cur.key

    def log(self, st, kind, node, **data):
        # events raised inside helpers that did not exist when the rules were written (and inside
        # closures) count as the caller's own events: depth 0
        known = known_functions()
        depth = sum(1 for k in self.stack[1:] if k in known and '<locals>' not in k and '<lambda>' not in k)
        ev = Event(kind, node, self.cur, in_loop=self.loop_depth > 0, depth=depth, **data)
        st.events.append(ev)
        return ev

    def log_write(self, st, how, target, node, **data):
        return self.log(st, 'write', node, how=how, target=target, **data)

    def log_call(self, st, callee, bound, node, **data):
        STATS['calls_internal'] += 1
        key = callee.key if isinstance(callee, FuncInfo) else callee
        return self.log(st, 'call', node, callee=key, bound=bound, **data)

    def note(self, st, rule, node, **data):
        return self.log(st, 'note', node, rule=rule, **data)

    # ------------------------------------------------------------------ calls
    def should_inline(self, f, auto_simple=False):
        if f.key in self.stack or len(self.stack) > self.max_depth:
            return False
        if f.key in self.inline_set or '*' in self.inline_set:
            return True
        if f.key not in known_functions() and not _is_generator(f.node) and not f.is_cached:
            return True      # a helper introduced after the rules were written: transparent (a memoised one is not:
            #                  its result is shared between calls)
        if auto_simple:
            body = [s for s in f.node.body if not (isinstance(s, ast.Expr) and isinstance(s.value, ast.Constant))]
            if len(body) == 1 and isinstance(body[0], ast.Return):
                return True
        return False

    def bind(self, f, args, kwargs, self_val=None, st=None, node=None):
        """Bind call arguments to the parameters of ``f``."""
        params = f.params()
        bound = {}
        pos = [p for p in params if p[2] == 'pos']
        if self_val is not None and pos:
            bound[pos[0][0]] = self_val
            pos = pos[1:]
        var = [p for p in params if p[2] == 'vararg']
        kwp = [p for p in params if p[2] == 'kwarg']
        names = {p[0] for p in params if p[2] in ('pos', 'kwonly')}
        extra = []
        for i, a in enumerate(args):
            if i < len(pos):
                bound[pos[i][0]] = a
            elif var:
                extra.append(a)
            else:
                raise BindError(f'too many positional arguments for {f.key}')
        if var:
            bound[var[0][0]] = Tup(extra)
        kwextra = {}
        for k, v in kwargs.items():
            if k is None:
                continue
            if k in names:
                if k in bound:
                    raise BindError(f'multiple values for {k!r} in call to {f.key}')
                bound[k] = v
            elif kwp:
                kwextra[k] = v
            else:
                raise BindError(f'unexpected keyword {k!r} for {f.key}')
        if kwp:
            bound[kwp[0][0]] = app('kwargs', *[Tup([Const(k), v]) for k, v in sorted(kwextra.items())])
        has_star = None in kwargs or any(isinstance(a, Poly) and a.single_atom() and
                                         a.single_atom()[0] == 'app' and a.single_atom()[1] == 'starred'
                                         for a in args)
        for name, default, kind in params:
            if kind in ('pos', 'kwonly') and name not in bound:
                if has_star and None in kwargs:
                    bound[name] = Poly.atom(('fresh', fresh_id(), 'starred:' + name))   # may be supplied by the ** mapping
                elif default is not None:
                    bound[name] = self.eval_default(f, default)
                elif has_star:
                    bound[name] = nf.sym(name)
                else:
                    raise BindError(f'missing argument {name!r} in call to {f.key}')
        return bound

    def eval_default(self, f, node):
        prev = self.cur
        self.cur = f
        try:
            return self.eval(node, State())
        finally:
            self.cur = prev

    def inline(self, f, bound, st, node):
        """Evaluate callee paths; fork the caller when there are several."""
        sub = State()
        sub.env = dict(bound)
        sub.heap = st.heap
        sub.conds = list(st.conds)          # what the caller already established decides repeated tests in the callee
        n_conds = len(st.conds)
        depth_events = len(st.events)
        sub.events = st.events
        self_v = bound.get('self')
        if f.cls is not None and isinstance(self_v, Poly) and self_v.single_atom() is not None:
            self.types.setdefault(self_v.single_atom(), self.class_of(self_v) or f.cls)
        saved_loop = self.loop_depth
        paths = self.run_body(f, sub)
        self.loop_depth = saved_loop
        paths = [p for p in paths]
        if not paths:
            return Poly.atom(('fresh', fresh_id(), f.key))
        if len(paths) > 1:
            ch = st.choices.get(id(node))
            if ch is None:
                del st.events[depth_events:]
                raise Fork(node, len(paths))
            p = paths[ch]
        else:
            p = paths[0]
        # adopt the callee path's side effects
        st.heap = p.state.heap
        if p.state.events is not st.events:
            st.events[depth_events:] = p.state.events[depth_events:]
        for c in p.state.conds[n_conds:]:
            st.conds.append(c)
        for lp in p.state.loops:
            if lp not in st.loops:
                st.loops.append(lp)          # loops executed inside the callee belong to this path too
        if p.status == 'raise':
            raise _Raised(p.exc, p.node)
        self._propagate_mutation(f, bound, p, st)
        return p.ret

    def _propagate_mutation(self, f, bound, p, st):
        """The callee updated one of its array arguments in place (`a *= s`, `a[k] = v`, `ufunc(.., out=a)`): the object
        is the caller's, so every caller name that held it now holds the updated value.  A parameter that the callee
        also re-binds with a plain assignment is left alone (the update may have hit the new object)."""
        rebound = set()
        for node in ast.walk(f.node):
            if isinstance(node, (ast.Assign, ast.AnnAssign)):
                for t in (node.targets if isinstance(node, ast.Assign) else [node.target]):
                    for n in ast.walk(t):
                        if isinstance(n, ast.Name) and isinstance(n.ctx, ast.Store) and not isinstance(t, ast.Subscript):
                            rebound.add(n.id)
            elif isinstance(node, (ast.For, ast.comprehension)):
                for n in ast.walk(node.target):
                    if isinstance(n, ast.Name):
                        rebound.add(n.id)
        itemwise = set()
        for node in ast.walk(f.node):
            if isinstance(node, ast.Subscript) and isinstance(node.ctx, ast.Store) and isinstance(node.value, ast.Name):
                itemwise.add(node.value.id)
            if isinstance(node, ast.keyword) and node.arg == 'out' and isinstance(node.value, ast.Name):
                itemwise.add(node.value.id)
        procedure = p.ret is None or p.ret == NONE
        for name, v0 in bound.items():
            if name in rebound or not isinstance(v0, (Poly, Tup)) or name not in p.state.env:
                continue
            if name not in itemwise and not procedure:
                continue            # `n *= 2; return n` on a number: the caller sees the result through the return value
            v1 = p.state.env[name]
            if v1 is v0 or v1 == v0:
                continue
            if isinstance(v0, Poly) and v0.const_value() is not None:
                continue            # numbers are immutable: `x *= 2` on a scalar argument stays in the callee
            for k, cv in list(st.env.items()):
                if cv is v0 or (type(cv) is type(v0) and cv == v0):
                    st.env[k] = v1
            for k, cv in list(st.heap.items()):
                if cv is v0 or (type(cv) is type(v0) and cv == v0):
                    st.heap[k] = v1

    def _reduce_call(self, node, st):
        """functools.reduce(f, seq, init) is `acc = init; for x in seq: acc = f(acc, x)`: evaluated as that loop"""
        f_node, seq_node, init_node = node.args
        tmp = f'__reduce_{node.lineno}_{node.col_offset}'
        cache = self.__dict__.setdefault('_reduce_stmts', {})
        stmts = cache.get(id(node))
        if stmts is None and self._threads_accumulator(f_node, st):
            # the folded function hands its accumulator argument back (`return out`): the accumulator is the initial object
            # throughout, the loop only calls the function for its effect on it
            stmts = ast.parse(f'{tmp} = 0\nfor {tmp}_x in 0:\n    0').body
            stmts[0].value = init_node
            stmts[1].iter = seq_node
            stmts[1].body[0].value = ast.Call(func=f_node, args=[ast.Name(id=tmp, ctx=ast.Load()), ast.Name(id=tmp + '_x', ctx=ast.Load())],
                                              keywords=[])
            for s_ in stmts:
                ast.copy_location(s_, node)
                for n_ in ast.walk(s_):
                    if not hasattr(n_, 'lineno'):
                        ast.copy_location(n_, node)
                ast.fix_missing_locations(s_)
            cache[id(node)] = stmts
        if stmts is None:
            # built once per call site: the choices of forked re-executions are keyed by the identity of the nodes
            stmts = ast.parse(f'{tmp} = 0\nfor {tmp}_x in 0:\n    {tmp} = 0').body
            stmts[0].value = init_node
            stmts[1].iter = seq_node
            stmts[1].body[0].value = ast.Call(func=f_node, args=[ast.Name(id=tmp, ctx=ast.Load()), ast.Name(id=tmp + '_x', ctx=ast.Load())],
                                              keywords=[])
            for s_ in stmts:
                ast.copy_location(s_, node)
                for n_ in ast.walk(s_):
                    if not hasattr(n_, 'lineno'):
                        ast.copy_location(n_, node)
                ast.fix_missing_locations(s_)
            cache[id(node)] = stmts
        # executed on the caller's state itself; a fork in the initial value re-executes the enclosing statement
        for s_ in stmts:
            cont, done = self.exec_stmt1(s_, st)
            if not cont or cont[0] is not st:
                return Poly.atom(('fresh', fresh_id(), 'reduce'))
        v = st.env.get(tmp)
        return v if v is not None else Poly.atom(('fresh', fresh_id(), 'reduce'))

    def _threads_accumulator(self, f_node, st):
        """True when `f_node` is `lambda acc, x: g(..., acc, ...)` and g returns, on every path, the very parameter the
        accumulator is passed for (never rebinding it)"""
        if isinstance(f_node, ast.Name) and f_node.id in st.env:
            # a nested `def step(acc, x): return g(x, acc)` passed by name
            cv = st.env[f_node.id]
            fi_ = cv.value[1] if isinstance(cv, Const) and isinstance(cv.value, tuple) and cv.value[0] == 'closure' else None
            body_ = [b for b in fi_.node.body if not (isinstance(b, ast.Expr) and isinstance(b.value, ast.Constant))] if fi_ is not None else []
            if fi_ is not None and len(fi_.node.args.args) == 2 and len(body_) == 1 and isinstance(body_[0], ast.Return) \
                    and isinstance(body_[0].value, ast.Call):
                f_node = ast.Lambda(args=fi_.node.args, body=body_[0].value)
        if not (isinstance(f_node, ast.Lambda) and len(f_node.args.args) == 2 and isinstance(f_node.body, ast.Call)):
            return False
        acc = f_node.args.args[0].arg
        call = f_node.body
        try:
            fv = self.eval(call.func, st)
        except Exception:
            return False
        fi = fv.value if isinstance(fv, Const) and isinstance(fv.value, FuncInfo) else None
        if fi is None:
            return False
        rets = [n_ for n_ in ast.walk(fi.node) if isinstance(n_, ast.Return)]
        if not rets or not all(isinstance(r.value, ast.Name) for r in rets) or len({r.value.id for r in rets}) != 1:
            return False
        pname = rets[0].value.id
        names = [a.arg for a in fi.node.args.posonlyargs + fi.node.args.args]
        if pname not in names or any(isinstance(n_, ast.Name) and n_.id == pname and not isinstance(n_.ctx, ast.Load)
                                     for n_ in ast.walk(fi.node)):
            return False
        if any(isinstance(n_, (ast.FunctionDef, ast.Lambda, ast.Global, ast.Nonlocal)) for n_ in ast.walk(fi.node) if n_ is not fi.node):
            return False
        k = names.index(pname)
        passed = None
        if k < len(call.args) and not any(isinstance(a, ast.Starred) for a in call.args):
            passed = call.args[k]
        for kw in call.keywords:
            if kw.arg == pname:
                passed = kw.value
        return isinstance(passed, ast.Name) and passed.id == acc and \
            sum(1 for n_ in ast.walk(call) if isinstance(n_, ast.Name) and n_.id == acc) == 1

    def _map_call(self, node, st):
        """map(f, seq) is the sequence [f(x) for x in seq]: evaluated as that comprehension"""
        cache = self.__dict__.setdefault('_map_nodes', {})
        comp = cache.get(id(node))
        tmp = f'__map_{node.lineno}_{node.col_offset}'
        if comp is None:
            comp = ast.parse(f'[{tmp}_f({tmp}_x) for {tmp}_x in {tmp}_seq]', mode='eval').body
            comp.elt.func = node.args[0]
            comp.generators[0].iter = node.args[1]
            for n_ in ast.walk(comp):
                ast.copy_location(n_, node)
            ast.fix_missing_locations(comp)
            cache[id(node)] = comp
        return self.eval(comp, st)

    def e_Call(self, node, st):
        fn = node.func
        if isinstance(fn, ast.Name) and fn.id == 'map' and len(node.args) == 2 and not node.keywords and 'map' not in st.env:
            return self._map_call(node, st)
        if len(node.args) == 2 and not node.keywords and (dotted(fn) or '') in ('itertools.starmap', 'starmap') \
                and 'starmap' not in st.env:
            # starmap(f, seq) over a sequence whose items are known: [f(*item) for item in seq]
            seq = self.eval(node.args[1], st)
            if isinstance(seq, Tup) and len(seq) <= 8 and all(isinstance(x, Tup) for x in seq.items):
                fval = self.eval(node.args[0], st)
                return Tup([self.call_value(fval, list(x.items), {}, st, node) for x in seq.items], 'list')
        if len(node.args) == 3 and not node.keywords and not getattr(self, 'comp_depth', 0) and \
                (dotted(fn) or '') in ('functools.reduce', 'reduce') and 'reduce' not in st.env:
            return self._reduce_call(node, st)
        if len(node.args) == 2 and not node.keywords and (dotted(fn) or '') in ('functools.reduce', 'reduce') and 'reduce' not in st.env:
            # reduce(f, [a, b, c]) over a list whose items are known: f(f(a, b), c)
            seq = self.eval(node.args[1], st)
            if isinstance(seq, Tup) and 1 <= len(seq) <= 8:
                fval = self.eval(node.args[0], st)
                acc = seq.items[0]
                for x in seq.items[1:]:
                    acc = self.call_value(fval, [acc, x], {}, st, node)
                return acc
        args = []
        unknown_star = []
        for a in node.args:
            if isinstance(a, ast.Starred):
                v = self.eval(a.value, st)
                if isinstance(v, Tup):
                    args.extend(v.items)        # f(*known_sequence)
                    continue
                from .npmodel import _returned_tuple_len
                n_ret = _returned_tuple_len(self, v) if isinstance(v, Poly) else None
                if n_ret is not None and n_ret <= 8:
                    args.extend(nf.index(v, Poly.const(i)) for i in range(n_ret))    # f(*g(...)) with g returning an n-tuple
                    continue
                unknown_star.append((len(args), v))
                args.append(app('starred', P(v)))   # starred(v): stays marked unless its length can be inferred below
                continue
            args.append(self.eval(a, st))
        if len(unknown_star) == 1 and not any(k.arg is None for k in node.keywords) and isinstance(unknown_star[0][1], Poly):
            # f(*seq, ...) with one sequence of unknown length: it fills the positional parameters that are left
            try:
                fv = self.eval(fn, st) if isinstance(fn, ast.Name) else None
            except Exception:
                fv = None
            fi = fv.value if isinstance(fv, Const) and isinstance(fv.value, FuncInfo) else None
            if fi is not None and fi.cls is None and fi.node.args.vararg is None:
                npos = len(fi.node.args.posonlyargs) + len(fi.node.args.args) - len([k for k in node.keywords])
                need = npos - (len(args) - 1)
                if 1 <= need <= 6:
                    pos, v = unknown_star[0]
                    args[pos:pos + 1] = [nf.index(v, Poly.const(i)) for i in range(need)]
        kwargs = {}
        for k in node.keywords:
            v = self.eval(k.value, st)
            if k.arg is None:
                known = _known_mapping(v)
                if known is None:
                    # **TABLE with TABLE a module-level dict display of constants: read it by value
                    d = dotted(k.value)
                    tgt = self.repo.resolve_name(self.cur.module, d) if d and d.split('.')[0] not in st.env else None
                    if isinstance(tgt, tuple) and tgt[0] == 'global' and isinstance(tgt[1].globals.get(tgt[2]), ast.Dict):
                        from .expr import _table_expr
                        if _table_expr(tgt[1].globals[tgt[2]]):
                            prev, self.literal_tables = self.literal_tables, True
                            try:
                                known = _known_mapping(self.target_value(tgt, d))
                            finally:
                                self.literal_tables = prev
                if known is not None:
                    kwargs.update(known)        # **{...} / **dict(...) / forwarded **kwargs with known keys
                    continue
            kwargs[k.arg] = v
        # super().m(...)
        if isinstance(fn, ast.Attribute) and isinstance(fn.value, ast.Call) \
                and isinstance(fn.value.func, ast.Name) and fn.value.func.id == 'super':
            cls = self.cur.cls
            f = cls.find_method(fn.attr, after=cls) if cls else None
            selfname = self.cur.params()[0][0]
            if f is None:
                return app(f'super.{fn.attr}', *[P(a) for a in args])
            return self.call_internal(f, args, kwargs, st, node, self_val=st.env.get(selfname))
        if isinstance(fn, ast.Attribute):
            d = dotted(fn)
            recv = None
            if d is not None and d.split('.')[0] not in st.env:
                tgt = self.repo.resolve_name(self.cur.module, d)
                if tgt is not None and not (isinstance(tgt, tuple) and tgt[0] in ('global', 'globalattr', 'classattr')):
                    return self.call_target(tgt, d, args, kwargs, st, node)
            recv = self.eval(fn.value, st)
            return self.call_method(recv, fn.attr, args, kwargs, st, node)
        callee = self.eval(fn, st)
        return self.call_value(callee, args, kwargs, st, node)

    def call_value(self, callee, args, kwargs, st, node):
        if isinstance(callee, Const):
            v = callee.value
            if isinstance(v, (FuncInfo, ClassInfo)):
                return self.call_target(v, getattr(v, 'key', ''), args, kwargs, st, node)
            if isinstance(v, tuple):
                if v[0] == 'builtin':
                    return self.call_ext(v[1], args, kwargs, st, node)
                if v[0] == 'ext':
                    return self.call_ext(v[1], args, kwargs, st, node)
                if v[0] == 'bound':
                    return self.call_internal(v[1], args, kwargs, st, node, self_val=v[2])
                if v[0] == 'unbound':
                    return self.call_internal(v[1], args, kwargs, st, node)
                if v[0] == 'closure':
                    return self.call_closure(v[1], args, kwargs, st, node)
                if v[0] == 'namedtuple':
                    # N(a, b) / N(x=a, y=b): a tuple whose items also answer to the field names
                    fields = list(v[2])
                    items = list(args) + [None] * (len(fields) - len(args))
                    for k_, val_ in kwargs.items():
                        if k_ in fields:
                            items[fields.index(k_)] = val_
                    if len(items) == len(fields) and all(i is not None for i in items):
                        t = Tup(items, 'tuple')
                        NT_FIELDS[t.key] = tuple(fields)
                        return t
                if v[0] == 'attrgetter' and len(args) == 1 and not kwargs:
                    return self.load_attr(args[0], v[1], st, node)
                if v[0] == 'itemgetter' and len(args) == 1 and not kwargs:
                    return self.load_index(args[0], v[1])
                if v[0] == 'partial':
                    # functools.partial(f, *a, **k)(*b, **m) is f(*a, *b, **{**k, **m})
                    _, inner, pargs, pkw = v
                    kw2 = dict(pkw)
                    kw2.update(kwargs)
                    return self.call_value(inner, list(pargs) + list(args), kw2, st, node)
        if isinstance(callee, Poly) and callee.single_atom() is not None:
            # obj(...) with obj an instance of a package class that defines __call__
            cls_ = self.class_of(callee)
            fc_ = cls_.find_method('__call__') if cls_ is not None else None
            if fc_ is not None:
                return self.call_internal(fc_, args, kwargs, st, node, self_val=callee)
        STATS['calls_unresolved'] += 1
        self.log(st, 'call', node, callee='?', bound={}, fn=callee, args=args, kwargs=kwargs)
        return app('callv', P(callee), *[a if isinstance(a, (Poly, Tup)) else P(a) for a in args], **kwargs)

    def call_closure(self, fi, args, kwargs, st, node):
        """Call of a nested function / lambda: evaluated in place with the enclosing
        variables visible (closures are transparent to the analysis)."""
        if _is_generator(fi.node) or fi.key in self.stack or len(self.stack) > self.max_depth + 2:
            return app('callv', P(Const(('closure', fi.qualname))), *[a if isinstance(a, (Poly, Tup)) else P(a) for a in args])
        try:
            bound = self.bind(fi, args, kwargs, st=st, node=node)
        except BindError as e:
            self.note(st, 'B2', node, what=str(e), callee=fi.key)
            return Poly.atom(('fresh', fresh_id(), 'badcall:' + fi.key))
        env = dict(st.env)
        env.update(bound)
        return self.inline(fi, env, st, node)

    def call_target(self, tgt, name, args, kwargs, st, node):
        if isinstance(tgt, FuncInfo):
            return self.call_internal(tgt, args, kwargs, st, node)
        if isinstance(tgt, ClassInfo):
            return self.construct(tgt, args, kwargs, st, node)
        if tgt[0] == 'ext':
            return self.call_ext(tgt[1], args, kwargs, st, node)
        if tgt[0] == 'missing':
            self.note(st, 'B1', node, what=f'unresolved reference {name}')
            self.log(st, 'call', node, callee='missing:' + name, bound={}, args=args, kwargs=kwargs)
            return Poly.atom(('fresh', fresh_id(), 'missing:' + name))
        return self.call_value(self.target_value(tgt, name), args, kwargs, st, node)

    def call_ext(self, name, args, kwargs, st, node):
        STATS['calls_external'] += 1
        if None in kwargs:
            # f(**unknown_mapping): kept as an opaque extra argument
            kwargs = dict(kwargs)
            args = list(args) + [app('starstar', P(kwargs.pop(None)))]
        self.log(st, 'call', node, callee='ext:' + name, bound={}, args=args, kwargs=kwargs)
        h = HANDLERS.get(name)
        if h is None and name.startswith('scipy.'):
            return app(name, *[a if isinstance(a, (Poly, Tup, Const, Slice)) else P(a) for a in args], **kwargs)
        if h is None:
            if name.startswith('numpy.random.'):
                return app(name[6:], *[a if isinstance(a, (Poly, Tup, Const)) else P(a) for a in args], **kwargs)
            return app(name, *[a if isinstance(a, (Poly, Tup, Const, Slice)) else P(a) for a in args], **kwargs)
        return h(self, st, args, kwargs, node)

    def call_internal(self, f, args, kwargs, st, node, self_val=None):
        if f.is_static:
            self_val = None
        if f.cls is not None and self_val is None and not f.is_static and not f.is_classmethod \
                and args and f.params() and f.params()[0][0] == 'self':
            self_val, args = args[0], args[1:]
        if f.is_classmethod and (self_val is None or not (isinstance(self_val, Const) and isinstance(self_val.value, ClassInfo))):
            # cls is the class, also when the class method is reached through an instance (obj.check(...))
            c_ = self.class_of(self_val) if self_val is not None else None
            self_val = Const(c_ if c_ is not None else f.cls)
        try:
            bound = self.bind(f, args, kwargs, self_val=self_val, st=st, node=node)
        except BindError as e:
            self.note(st, 'B2', node, what=str(e), callee=f.key)
            self.log(st, 'call', node, callee=f.key, bound={}, args=args, kwargs=kwargs, bind_error=str(e))
            return Poly.atom(('fresh', fresh_id(), 'badcall:' + f.key))
        seen_as = f.rules_view(bound)
        ev = self.log_call(st, f, seen_as, node, args=args, kwargs=kwargs)
        if _is_generator(f.node) and f.key not in known_functions() and f.key not in self.stack and len(self.stack) <= self.max_depth:
            # a private generator introduced later, called for its items (tuple(gen()), unpacking, chain ...): the list of
            # what it yields, in order
            g = _materialised(f)
            if g is not None:
                n_ev, heap0, n_c, n_l = len(st.events), dict(st.heap), len(st.conds), len(st.loops)
                try:
                    r = self.inline(g, bound, st, node)
                except Fork:
                    st.events.remove(ev) if ev in st.events else None
                    raise
                if isinstance(r, Tup) and not any(a[0] in ('loop', 'iter') for i_ in r.items for a in nf.value_atoms(i_)):
                    ev.data['result'] = r
                    return r
                # what it yields depends on a loop that was not unrolled: the call stays a value of its own
                del st.events[n_ev:]
                del st.conds[n_c:]
                del st.loops[n_l:]
                st.heap = heap0
        if self.should_inline(f):
            try:
                r = self.inline(f, bound, st, node)
            except Fork:
                st.events.remove(ev) if ev in st.events else None
                raise
            ev.data['result'] = r
            return r
        r = app('call:' + f.key, *[Tup([Const(k), v]) for k, v in seen_as.items()])
        ev.data['result'] = r
        return r

    def construct(self, cls, args, kwargs, st, node):
        from .expr import _is_enum
        if _is_enum(cls) and len(args) == 1 and not kwargs:
            # Color('r'): the member whose value that is
            v = args[0]
            if isinstance(v, Const) or (isinstance(v, Poly) and v.const_value() is not None):
                for mname, val in cls.class_attrs.items():
                    if isinstance(val, ast.Constant) and not mname.startswith('_'):
                        mv = self.e_Constant(val, None)
                        if mv == v:
                            return Const(('enum', cls.key, mname))
            return app('enum:' + cls.key, v if isinstance(v, (Poly, Tup, Const)) else P(v))
        init = cls.find_method('__init__')
        obj = Poly.atom(('fresh', fresh_id(), 'new:' + cls.key))
        self.types[obj.single_atom()] = cls
        if init is None:
            self.log(st, 'call', node, callee=cls.key + '.__init__', bound={}, args=args, kwargs=kwargs,
                     result=obj, new=cls.key)
            fields = record_fields(cls)
            if fields is not None:
                # a dataclass / NamedTuple record: the generated constructor stores its arguments under the annotated names
                if len(args) == 1 and isinstance(args[0], Poly) and args[0].single_atom() is not None and \
                        args[0].single_atom()[0] == 'app' and args[0].single_atom()[1] == 'starred' and not kwargs:
                    # Record(*sequence): one item per field
                    seq_ = args[0].single_atom()[2][0]
                    args = [self.load_index(seq_, Poly.const(i_)) for i_ in range(len(fields))]
                vals = dict(zip([n_ for n_, _ in fields], args))
                if len(args) > len(fields) or any(k not in dict(fields) for k in kwargs):
                    self.note(st, 'B2', node, what=f'arguments do not fit the fields of {cls.key}', callee=cls.key)
                    return obj
                vals.update(kwargs)
                for name, default in fields:
                    if name not in vals:
                        if default is None:
                            self.note(st, 'B2', node, what=f'missing field {name!r} of {cls.key}', callee=cls.key)
                            return obj
                        prev, self.cur = self.cur, _ClassScope(cls, self.cur)
                        try:
                            vals[name] = self.eval(default, st)
                        finally:
                            self.cur = prev
                    st.heap[nf.attr(obj, name).single_atom()] = vals[name]
                RECORD_FIELDS[obj.single_atom()] = tuple(n_ for n_, _ in fields)
            return obj
        try:
            bound = self.bind(init, args, kwargs, self_val=obj, st=st, node=node)
        except BindError as e:
            self.note(st, 'B2', node, what=str(e), callee=init.key)
            self.log(st, 'call', node, callee=init.key, bound={}, args=args, kwargs=kwargs, new=cls.key,
                     bind_error=str(e), result=obj)
            return obj
        ev = self.log_call(st, init, bound, node, args=args, kwargs=kwargs, new=cls.key, result=obj)
        if cls.key in self.inline_ctor and self.should_inline(init) or \
                (cls.key in self.inline_ctor and init.key not in self.stack) or \
                (init.key not in known_functions() and init.key not in self.stack and len(self.stack) <= self.max_depth):
            # (the constructor of a class introduced after the rules were written is followed like any new helper)
            try:
                self.inline(init, bound, st, node)
            except Fork:
                st.events.remove(ev) if ev in st.events else None
                raise
        return obj

    def call_method(self, recv, name, args, kwargs, st, node):
        cls = self.class_of(recv)
        if isinstance(recv, Const) and isinstance(recv.value, ClassInfo):
            f = recv.value.find_method(name)
            if f is not None:
                return self.call_internal(f, args, kwargs, st, node)
        if cls is not None:
            f = cls.find_method(name)
            if f is not None:
                return self.call_internal(f, args, kwargs, st, node, self_val=None if f.is_static else recv)
            if name not in cls.attr_names():
                self.note(st, 'B1', node, what=f'{cls.key} has no attribute {name!r}')
        if isinstance(recv, Tup) and recv.kind == 'vec' and name in ('astype', 'copy'):
            return recv
        if isinstance(recv, Tup) and name == '_asdict' and not args and not kwargs and recv.key in NT_FIELDS \
                and len(NT_FIELDS[recv.key]) == len(recv):
            # the fields of a NamedTuple by name
            return app('dict', *[Tup([Const(f_), x_]) for f_, x_ in zip(NT_FIELDS[recv.key], recv.items)])
        if isinstance(recv, Const) and isinstance(recv.value, str) and name in ('lower', 'upper', 'strip') \
                and all(isinstance(a, Const) and isinstance(a.value, str) for a in args):
            return Const(getattr(recv.value, name)(*[a.value for a in args]))
        ra = recv.single_atom() if isinstance(recv, Poly) else None
        if ra is not None and ra[0] == 'app' and ra[1] == 'dict' and name == 'get' and args and isinstance(args[0], (Const, Poly)):
            if isinstance(args[0], Const) or args[0].const_value() is not None:
                for pr in ra[2]:
                    if isinstance(pr, Tup) and pr.items[0] == args[0]:
                        return pr.items[1]
                if all(isinstance(pr, Tup) and isinstance(pr.items[0], (Const, Poly)) for pr in ra[2]):
                    return args[1] if len(args) > 1 else NONE
        if ra is not None and ra[0] == 'app' and ra[1] == 'dict' and name in ('keys', 'values') and not args \
                and all(isinstance(pr, Tup) and len(pr) == 2 for pr in ra[2]):
            return Tup([pr.items[0 if name == 'keys' else 1] for pr in ra[2]], 'tuple')
        if ra is not None and ra[0] == 'app' and ra[1] == 'kwargs' and name in ('pop', 'get') and args:
            for pr in ra[2]:
                if isinstance(pr, Tup) and pr.items[0] == args[0]:
                    return pr.items[1]
            return args[1] if len(args) > 1 else NONE
        # bound method stored in the heap / attribute value
        if name in ARRAY_METHODS_MUTATE:
            fn = node.func
            if not (isinstance(fn.value, ast.Name) and fn.value.id == '__yielded__'):      # (the collector of a materialised generator)
                self.log_write(st, 'method:' + name, recv, node, args=args)
            if isinstance(fn.value, ast.Name) and isinstance(st.env.get(fn.value.id), Tup) \
                    and st.env[fn.value.id].kind == 'list':
                lst = st.env[fn.value.id]
                if name == 'append' and len(args) == 1:
                    st.env[fn.value.id] = Tup(lst.items + (args[0],), 'list')
                    return NONE
                if name == 'extend' and len(args) == 1 and isinstance(args[0], Tup):
                    st.env[fn.value.id] = Tup(lst.items + args[0].items, 'list')
                    return NONE
                st.env[fn.value.id] = Poly.atom(('fresh', fresh_id(), f'{fn.value.id}.{name}'))
                return NONE
            if isinstance(fn.value, ast.Name) and fn.value.id in st.env:
                st.env[fn.value.id] = app('mut:' + name, P(recv), *[P(a) for a in args])
            elif isinstance(recv, Poly) and recv.single_atom() is not None and recv.single_atom()[0] == 'attr':
                st.heap[recv.single_atom()] = app('mut:' + name, P(recv), *[P(a) for a in args])
            return NONE
        sig = _RNG_SIGNATURES.get(name)
        if sig and args and len(args) <= len(sig) and not any(k in kwargs for k in sig[:len(args)]):
            # draws from a Generator: positional arguments are named (normal(a, b) == normal(loc=a, scale=b))
            kwargs = dict(kwargs, **{k: v for k, v in zip(sig, args)})
            args = []
        self.log(st, 'call', node, callee='method:' + name, bound={}, recv=recv, args=args, kwargs=kwargs)
        if name == 'dot' and len(args) == 1:
            return app('dot', P(recv), P(args[0]))
        if name == 'copy' and not args:
            return app('copy', P(recv))
        if name in ('any', 'all') and not args and not kwargs and isinstance(recv, (Poly, Tup)):
            return HANDLERS['numpy.' + name](self, st, [recv], {}, node)
        if name in ('min', 'max') and isinstance(recv, Tup) and not args and not kwargs:
            return HANDLERS['numpy.' + name](self, st, [recv], {}, node)
        if name in ('prod', 'sum') and isinstance(recv, Tup) and recv.kind == 'vec' and recv.items and not args and not kwargs:
            from .npmodel import _dimlike
            if all(isinstance(i, Poly) and _dimlike(i) for i in recv.items):
                out = recv.items[0]             # a short vector of dimensions: the product / sum of its items
                for i in recv.items[1:]:
                    out = out * i if name == 'prod' else out + i
                return out
        if name == 'sum' and isinstance(recv, Poly):
            return HANDLERS['numpy.sum'](self, st, [recv] + list(args), kwargs, node)
        if name in ('min', 'max') and isinstance(recv, Poly):
            nm = {'min': 'amin', 'max': 'amax'}[name]
            return app(nm, recv, *[P(a) for a in args], **kwargs)
        if name == 'reshape' and len(args) == 1 and isinstance(args[0], Tup) and args[0].kind != 'vec' and \
                all(isinstance(i, Poly) for i in args[0].items):
            args = list(args[0].items)          # x.reshape((a, b)) is x.reshape(a, b)
        return app('m:' + name, P(recv), *[a if isinstance(a, (Poly, Tup, Const, Slice)) else P(a) for a in args],
                   **kwargs)

    # -------------------------------------------------------------- statements
    def exec_block(self, stmts, states):
        done = []
        for s in stmts:
            nxt = []
            for st in states:
                if st.jump is not None:
                    nxt.append(st)       # left the loop body through continue / break
                    continue
                c, d = self.exec_stmt(s, st)
                nxt.extend(c)
                done.extend(d)
            states = nxt
            if len(states) + len(done) > self.max_paths:
                raise PathLimit(f'{self.cur.key}: more than {self.max_paths} paths')
            if not states:
                break
        return states, done

    def exec_stmt(self, s, st):
        """-> (continuing states, finished paths); handles Fork re-execution."""
        work = [st]
        cont, done = [], []
        while work:
            cur = work.pop()
            snap = cur.fork()
            try:
                c, d = self.exec_stmt1(s, cur)
                cont.extend(c)
                done.extend(d)
            except Fork as fk:
                for i in range(fk.n):
                    alt = snap.fork()
                    alt.choices[id(fk.node)] = i
                    work.append(alt)
                if len(work) + len(cont) + len(done) > self.max_paths:
                    raise PathLimit(f'{self.cur.key}: more than {self.max_paths} paths')
            except _Raised as r:
                done.append(Path('raise', None, cur, exc=r.exc, node=r.node))
        return cont, done

    def exec_stmt1(self, s, st):
        m = getattr(self, 's_' + type(s).__name__, None)
        if m is None:
            if isinstance(s, (ast.Nonlocal, ast.ClassDef, ast.TypeAlias if hasattr(ast, 'TypeAlias') else ast.Pass)):
                return [st], []
            raise AnalysisError(f'statement {type(s).__name__} is not followed ({self.cur.key}:{getattr(s, "lineno", "?")})')
        return m(s, st)

    def s_Expr(self, s, st):
        self.pending_out = None
        self.eval(s.value, st)
        self._apply_out(s.value, st)
        return [st], []

    def _apply_out(self, call, st):
        """np.ufunc(..., out=NAME) as a statement: NAME now holds the result."""
        if isinstance(call, ast.Call) and self.pending_out and self.pending_out[0] is call:
            for k in call.keywords:
                if k.arg == 'out' and isinstance(k.value, ast.Name):
                    st.env[k.value.id] = self.pending_out[1]
        self.pending_out = None

    def s_Pass(self, s, st):
        return [st], []

    def s_Assert(self, s, st):
        v = self.eval(s.test, st)
        st.conds.append((v, True, s))
        return [st], []

    def s_Global(self, s, st):
        st.globals_decl.update(s.names)
        self.log(st, 'global', s, names=list(s.names))
        return [st], []

    s_Nonlocal = s_Global

    def s_Import(self, s, st):
        return [st], []

    s_ImportFrom = s_Import

    def s_FunctionDef(self, s, st):
        from .model import FuncInfo
        fi = FuncInfo(self.cur.module, f'{self.cur.qualname}.<locals>.{s.name}', s, cls=None)
        st.env[s.name] = Const(('closure', fi))
        return [st], []

    def s_Delete(self, s, st):
        for t in s.targets:
            if isinstance(t, ast.Subscript):
                self.log_write(st, 'del', self.eval(t.value, st), s)
            elif isinstance(t, ast.Name):
                st.env.pop(t.id, None)
        return [st], []

    def s_Return(self, s, st):
        v = self.eval(s.value, st) if s.value is not None else NONE
        return [], [Path('return', v, st, node=s)]

    def s_Raise(self, s, st):
        exc = '?'
        if s.exc is not None:
            e = s.exc.func if isinstance(s.exc, ast.Call) else s.exc
            exc = dotted(e) or '?'
            if isinstance(s.exc, ast.Name) and s.exc.id in st.env:
                # `raise error` with error = ValueError(...) built earlier
                v_ = st.env[s.exc.id]
                a_ = v_.single_atom() if isinstance(v_, Poly) else None
                if a_ is not None and a_[0] == 'app' and (str(a_[1]).endswith('Error') or str(a_[1]).endswith('Exception')
                                                           or str(a_[1]).endswith('Warning')):
                    exc = str(a_[1]).split(':')[-1].split('.')[-1]
            if isinstance(s.exc, ast.Call):
                for a in s.exc.args:
                    self.eval(a, st)
        self.log(st, 'raise', s, exc=exc)
        return [], [Path('raise', None, st, exc=exc, node=s)]

    def s_Assign(self, s, st):
        self.pending_out = None
        v = self.eval(s.value, st)
        self.pending_out = None
        for t in s.targets:
            self.assign(t, v, st, s)
        return [st], []

    def s_AnnAssign(self, s, st):
        if s.value is not None:
            self.assign(s.target, self.eval(s.value, st), st, s)
        return [st], []

    def assign(self, t, v, st, s):
        if isinstance(t, ast.Name):
            if t.id in st.globals_decl:
                self.log_write(st, 'global', nf.sym(f'{self.cur.module.name}.{t.id}'), s, value=v)
            st.env[t.id] = v
        elif isinstance(t, (ast.Tuple, ast.List)):
            n = len(t.elts)
            star = [i for i, e in enumerate(t.elts) if isinstance(e, ast.Starred)]
            if len(star) == 1:
                # a, *rest, z = v
                k, after = star[0], n - star[0] - 1
                if isinstance(v, Tup) and len(v) >= n - 1:
                    items = list(v.items[:k]) + [Tup(v.items[k:len(v) - after], 'list')] + list(v.items[len(v) - after:])
                else:
                    pv = P(v)
                    items = [nf.index(pv, Poly.const(i)) for i in range(k)] + \
                            [nf.index(pv, Slice(Poly.const(k), Poly.const(-after) if after else NONE))] + \
                            [nf.index(pv, Poly.const(-j)) for j in range(after, 0, -1)]
            elif isinstance(v, Tup) and len(v) == n:
                items = v.items
            elif isinstance(v, Poly) and v.single_atom() in RECORD_FIELDS and len(RECORD_FIELDS[v.single_atom()]) == n \
                    and all(nf.attr(v, f_).single_atom() in st.heap for f_ in RECORD_FIELDS[v.single_atom()]):
                items = [st.heap[nf.attr(v, f_).single_atom()] for f_ in RECORD_FIELDS[v.single_atom()]]
            else:
                pv = P(v)
                items = [nf.index(pv, Poly.const(i)) for i in range(n)]
            for e, x in zip(t.elts, items):
                self.assign(e, x, st, s)
        elif isinstance(t, ast.Subscript):
            base = self.eval(t.value, st)
            key = self.eval(t.slice, st)
            self.log_write(st, 'setitem', base, s, key=key, value=v)
            new = app('setitem', P(base), key, v if isinstance(v, (Poly, Tup, Const)) else P(v))
            self.store_back(t.value, new, st)
        elif isinstance(t, ast.Attribute):
            base = self.eval(t.value, st)
            self.store_attr(base, t.attr, v, st, s)
        elif isinstance(t, ast.Starred):
            self.assign(t.value, v, st, s)

    def store_back(self, target_node, new, st):
        """After an in-place update of the object ``target_node`` evaluates to."""
        if isinstance(target_node, ast.Name):
            st.env[target_node.id] = new
        elif isinstance(target_node, ast.Attribute):
            base = self.eval(target_node.value, st)
            key = nf.attr(P(base), target_node.attr).single_atom()
            st.heap[key] = new
        elif isinstance(target_node, ast.Subscript):
            # x[a][b] = v : update x functionally one level up
            base = self.eval(target_node.value, st)
            key = self.eval(target_node.slice, st)
            self.store_back(target_node.value, app('setitem', P(base), key, new), st)

    def store_attr(self, base, name, v, st, s):
        cls = self.class_of(base)
        setter = cls.find_setter(name) if cls is not None else None
        self.log_write(st, 'attrstore', base, s, attr=name, value=v, setter=setter.key if setter else None)
        if setter is not None:
            bound = {setter.params()[0][0]: base, setter.params()[1][0]: v}
            self.log_call(st, setter, bound, s, via='setter')
            if self.should_inline(setter):
                self.inline(setter, bound, st, s)
                return
        key = nf.attr(P(base), name).single_atom()
        st.heap[key] = v

    def s_AugAssign(self, s, st):
        from .expr import BINOP
        op = BINOP.get(type(s.op), 'binop')
        t = s.target
        rhs = self.eval(s.value, st)
        if isinstance(t, ast.Name):
            old = st.env.get(t.id, nf.sym(t.id))
            self.log_write(st, 'augassign', old, s, op=op, value=rhs)
            st.env[t.id] = arith(op, old, rhs)
        elif isinstance(t, ast.Subscript):
            base = self.eval(t.value, st)
            key = self.eval(t.slice, st)
            old = self.load_index(base, key)
            new = arith(op, old, rhs)
            self.log_write(st, 'setitem', base, s, key=key, value=new, aug=op, rhs=rhs)
            self.store_back(t.value, app('setitem', P(base), key, new), st)
        elif isinstance(t, ast.Attribute):
            base = self.eval(t.value, st)
            old = self.load_attr(base, t.attr, st, t)
            self.log_write(st, 'augassign', old, s, op=op, value=rhs, via_attr=t.attr, obj=base)
            self.store_attr(base, t.attr, arith(op, old, rhs), st, s)
        return [st], []

    def s_If(self, s, st):
        tv = self.eval(s.test, st)
        t = truth(tv)
        if t is None:
            t = implied(tv, st.conds)      # decided by the conditions this path already took
        if t is True:
            return self.exec_block(s.body, [st])
        if t is False:
            return self.exec_block(s.orelse, [st]) if s.orelse else ([st], [])
        a, b = st, st.fork()
        ctv, cpol = canon_cond(tv, True)
        a.conds.append((ctv, cpol, s))
        b.conds.append((ctv, not cpol, s))
        self.refine(s.test, True, a)
        self.refine(s.test, False, b)
        c1, d1 = self.exec_block(s.body, [a])
        c2, d2 = self.exec_block(s.orelse, [b]) if s.orelse else ([b], [])
        return c1 + c2, d1 + d2

    def s_Match(self, s, st):
        """`match subject: case ...` as the if / elif chain it abbreviates (value, singleton, sequence, capture, wildcard
        and or-patterns, with guards); a pattern outside that set makes the analysis give up on the function."""
        cache = self.__dict__.setdefault('_match_stmts', {})
        stmts = cache.get(id(s))
        if stmts is None:
            tmp = f'__match_{s.lineno}_{s.col_offset}'

            def load(expr_src):
                return ast.parse(expr_src, mode='eval').body

            def test_of(pat, subj, binds):
                """(test expression or None for 'always', ) for pattern `pat` against the expression text `subj`"""
                if isinstance(pat, ast.MatchValue):
                    return ast.Compare(left=load(subj), ops=[ast.Eq()], comparators=[pat.value])
                if isinstance(pat, ast.MatchSingleton):
                    return ast.Compare(left=load(subj), ops=[ast.Is()], comparators=[ast.Constant(value=pat.value)])
                if isinstance(pat, ast.MatchAs):
                    inner = test_of(pat.pattern, subj, binds) if pat.pattern is not None else None
                    if pat.name is not None:
                        binds.append((pat.name, subj))
                    return inner
                if isinstance(pat, ast.MatchOr):
                    parts = []
                    for q in pat.patterns:
                        b2 = []
                        t = test_of(q, subj, b2)
                        if b2:
                            raise AnalysisError('match: capture inside an or-pattern')
                        if t is None:
                            return None
                        parts.append(t)
                    return ast.BoolOp(op=ast.Or(), values=parts)
                if isinstance(pat, ast.MatchSequence) and not any(isinstance(q, ast.MatchStar) for q in pat.patterns):
                    parts = []
                    for k, q in enumerate(pat.patterns):
                        t = test_of(q, f'{subj}[{k}]', binds)
                        if t is not None:
                            parts.append(t)
                    if not parts:
                        return None
                    return parts[0] if len(parts) == 1 else ast.BoolOp(op=ast.And(), values=parts)
                raise AnalysisError(f'match: pattern {type(pat).__name__} is not followed')
            first = ast.Assign(targets=[ast.Name(id=tmp, ctx=ast.Store())], value=s.subject)
            chain = None
            tail = None
            for case in s.cases:
                binds = []
                t = test_of(case.pattern, tmp, binds)
                body = [ast.Assign(targets=[ast.Name(id=nm, ctx=ast.Store())], value=load(src)) for nm, src in binds] + list(case.body)
                if case.guard is not None:
                    if binds:
                        raise AnalysisError('match: guard with captures')
                    t = case.guard if t is None else ast.BoolOp(op=ast.And(), values=[t, case.guard])
                if t is None:
                    node_ = body          # irrefutable: the else branch
                    if tail is None:
                        chain = node_
                    else:
                        tail.orelse = node_
                    tail = None
                    break
                node_ = ast.If(test=t, body=body, orelse=[])
                if tail is None and chain is None:
                    chain = [node_]
                else:
                    tail.orelse = [node_]
                tail = node_
            stmts = [first] + (chain or [])
            for x in stmts:
                ast.copy_location(x, s)
                for n_ in ast.walk(x):
                    if not hasattr(n_, 'lineno'):
                        ast.copy_location(n_, s)
                ast.fix_missing_locations(x)
            cache[id(s)] = stmts
        return self.exec_block(stmts, [st])

    def refine(self, test, pol, st):
        """x is None / x is not None refinement of a Name."""
        if isinstance(test, ast.UnaryOp) and isinstance(test.op, ast.Not):
            return self.refine(test.operand, not pol, st)
        if isinstance(test, ast.Compare) and len(test.ops) == 1 and isinstance(test.left, ast.Name) \
                and isinstance(test.comparators[0], ast.Constant) and test.comparators[0].value is None:
            is_none = isinstance(test.ops[0], ast.Is) == pol
            if isinstance(test.ops[0], (ast.Is, ast.IsNot)) and is_none:
                st.env[test.left.id] = NONE

    def bind_loop_target(self, target, it, st, node):
        line = getattr(node, 'lineno', getattr(target, 'lineno', 0))
        lid = f'{self.cur.name}@{line}'
        name = dotted(target) or 'it'
        itatom = Poly.atom(('iter', f'{name}#{lid}'))
        a = it.single_atom() if isinstance(it, Poly) else None
        if a is not None and a[0] == 'app' and a[1] == 'enumerate' and isinstance(target, ast.Tuple):
            seq = a[2][0]
            i = Poly.atom(('iter', f'{dotted(target.elts[0])}#{lid}'))
            self.assign(target.elts[0], i, st, node)
            self.assign(target.elts[1], self.load_index(seq, i) if not isinstance(seq, Tup)
                        else nf.index(P(seq), i), st, node)
            return
        if a is not None and a[0] == 'app' and a[1] == 'ndenumerate' and isinstance(target, ast.Tuple):
            seq = a[2][0]
            i = Poly.atom(('iter', f'{dotted(target.elts[0])}#{lid}'))
            self.assign(target.elts[0], Tup([i]), st, node)
            self.assign(target.elts[1], nf.index(P(seq), i), st, node)
            return
        if a is not None and a[0] == 'app' and a[1] == 'zip' and isinstance(target, ast.Tuple):
            k = Poly.atom(('iter', f'zip#{lid}'))
            for e, seq in zip(target.elts, a[2]):
                self.assign(e, nf.index(P(seq), k), st, node)
            return
        if a is not None and a[0] == 'app' and a[1] in ('range', 'arange'):
            self.assign(target, Poly.atom(('iter', f'{name}#{lid}', a)), st, node)
            return
        if isinstance(target, ast.Name):
            st.env[target.id] = nf.index(P(it), itatom)
        else:
            self.assign(target, nf.index(P(it), itatom), st, node)

    def s_For(self, s, st):
        des = self._desugar_generator_loop(s, st)
        if des is not None:
            return self.exec_block(des, [st])
        it = self.shape_items(self.eval(s.iter, st))
        if isinstance(it, Tup) and not s.orelse and ((len(it) <= 6 and self.unroll) or (
                len(it) <= 4 and all(isinstance(i, Const) or (isinstance(i, Poly) and i.const_value() is not None) for i in it.items))
                or (len(it) <= 12 and all(_fully_known(i) for i in it.items))):
            # a list whose items are all known: iterate concretely
            states, done, left = [st], [], []
            origins = _loop_origins(s)
            for pos, item in enumerate(it.items):
                nxt = []
                for cur in states:
                    self.assign(s.target, item, cur, s)
                    before = {v: cur.env.get(v) for v, _ in origins}
                    c, d = self.exec_block(s.body, [cur])
                    for b in c:
                        # the loop variable names an element of a list held in another variable: an in-place update
                        # through the loop variable is an update of that element
                        for v, lst in origins:
                            if isinstance(lst, tuple):
                                val = b.env.get(v)
                                if pos < len(lst) and before[v] is not None and val is not None and val != before[v] and _rooted(val, before[v]) \
                                        and b.env.get(lst[pos]) == before[v]:
                                    b.env[lst[pos]] = val
                                continue
                            val, seq = b.env.get(v), b.env.get(lst)
                            if before[v] is not None and val is not None and val != before[v] and _rooted(val, before[v]) \
                                    and isinstance(seq, Tup) and seq.kind == 'list' and pos < len(seq) and seq.items[pos] == before[v]:
                                b.env[lst] = Tup(seq.items[:pos] + (val,) + seq.items[pos + 1:], 'list')
                        if b.jump == 'break':
                            b.jump = None
                            left.append(b)
                        else:
                            b.jump = None
                            nxt.append(b)
                    done += d
                states = nxt
            return states + left, done
        return self._loop(s, st, it)

    _gen_counter = [0]

    def _desugar_generator_loop(self, s, st):
        """`for T in gen(args): BODY` over a private generator function of the package is the generator's own body with
        every `yield E` replaced by `T = E; BODY` (locals of the generator renamed apart).  Done only when each yield is a
        statement of its own that ends a loop body or stands at the top level of the generator, so that `continue` in BODY
        (resume the generator) means what it means at the place the yield stood."""
        if s.orelse or not isinstance(s.iter, ast.Call) or any(isinstance(a, ast.Starred) for a in s.iter.args) \
                or any(k.arg is None for k in s.iter.keywords):
            return None
        d = dotted(s.iter.func)
        receiver = None
        if d is None:
            return None
        if d.split('.')[0] in st.env:
            # obj.method(...) with obj of a known class of the package
            if not (isinstance(s.iter.func, ast.Attribute) and isinstance(s.iter.func.value, ast.Name)):
                return None
            cls = self.class_of(st.env[s.iter.func.value.id])
            tgt = cls.find_method(s.iter.func.attr) if cls is not None else None
            if tgt is None or tgt.is_static or tgt.is_property:
                return None
            receiver = s.iter.func.value
        else:
            tgt = self.repo.resolve_name(self.cur.module, d)
            if isinstance(tgt, FuncInfo) and tgt.cls is not None:
                return None
        if not isinstance(tgt, FuncInfo) or tgt.key in self.stack or tgt.is_cached \
                or (tgt.key in known_functions() and tgt.key not in self.inline_set):
            return None
        fn = tgt.node
        yields = [n for n in ast.walk(fn) if isinstance(n, (ast.Yield, ast.YieldFrom))]
        if not yields or any(isinstance(n, ast.YieldFrom) for n in yields) or any(isinstance(n, ast.Return) and n.value is not None
                                                                                 for n in ast.walk(fn)):
            return None

        def sites_ok(body, top):
            for i, stt in enumerate(body):
                if isinstance(stt, ast.Expr) and isinstance(stt.value, ast.Yield):
                    if not (top or i == len(body) - 1):
                        return False
                    continue
                if any(isinstance(n, ast.Yield) for n in ast.walk(stt)):
                    if isinstance(stt, ast.For) and not stt.orelse:
                        if not sites_ok(stt.body, False):
                            return False
                    else:
                        return False
            return True
        body = [b for b in fn.body if not (isinstance(b, ast.Expr) and isinstance(b.value, ast.Constant))]
        if not sites_ok(body, True):
            return None
        consumer_flow = any(isinstance(n, (ast.Break, ast.Return)) for b in s.body for n in ast.walk(b))
        if consumer_flow:
            return None
        # bind the parameters
        params = tgt.params()
        if any(k in ('vararg', 'kwarg') for _, _, k in params) or len(s.iter.args) + (1 if receiver is not None else 0) > len(params):
            return None
        pre = f'__{tgt.name.strip("_")}_'
        local = {n for n, _, _ in params} | set(assigned_names(fn.body))
        for n in ast.walk(fn):
            if isinstance(n, ast.comprehension):
                for t in ast.walk(n.target):
                    if isinstance(t, ast.Name):
                        local.discard(t.id)

        class Ren(ast.NodeTransformer):
            def visit_Name(self_, n):
                if n.id in local:
                    return ast.copy_location(ast.Name(id=pre + n.id, ctx=n.ctx), n)
                return n
        import copy as _copy
        out = []
        given = {}
        pos_params = list(params)
        if receiver is not None:
            given[params[0][0]] = receiver
            pos_params = params[1:]
        for (name, default, kind), a in zip(pos_params, s.iter.args):
            given[name] = a
        for k in s.iter.keywords:
            if k.arg not in {n for n, _, _ in params} or k.arg in given:
                return None
            given[k.arg] = k.value
        for name, default, kind in params:
            val = given.get(name, default)
            if val is None:
                return None
            out.append(ast.copy_location(ast.Assign(targets=[ast.Name(id=pre + name, ctx=ast.Store())], value=val, lineno=s.lineno), s))

        top_site = [False]

        def rewrite(block, top):
            res = []
            for stt in block:
                if isinstance(stt, ast.Expr) and isinstance(stt.value, ast.Yield):
                    val = Ren().visit(_copy.deepcopy(stt.value.value)) if stt.value.value is not None else ast.Constant(value=None)
                    asg = ast.copy_location(ast.Assign(targets=[_copy.deepcopy(s.target)], value=val, lineno=stt.lineno), stt)
                    if top:
                        # a yield outside any loop: run BODY once (its `continue` leaves only this run)
                        once = ast.For(target=ast.Name(id=pre + 'once', ctx=ast.Store()),
                                       iter=ast.Tuple(elts=[ast.Constant(value=0)], ctx=ast.Load()),
                                       body=[asg] + list(s.body), orelse=[], lineno=stt.lineno, col_offset=0)
                        res.append(ast.fix_missing_locations(ast.copy_location(once, stt)))
                    else:
                        res.append(ast.fix_missing_locations(asg))
                        res.extend(s.body)
                elif isinstance(stt, ast.For) and any(isinstance(n, ast.Yield) for n in ast.walk(stt)):
                    new = ast.For(target=Ren().visit(_copy.deepcopy(stt.target)), iter=Ren().visit(_copy.deepcopy(stt.iter)),
                                  body=rewrite(stt.body, False), orelse=[], lineno=stt.lineno, col_offset=stt.col_offset)
                    res.append(ast.fix_missing_locations(ast.copy_location(new, stt)))
                else:
                    res.append(ast.fix_missing_locations(Ren().visit(_copy.deepcopy(stt))))
            return res
        out.extend(rewrite(body, True))
        for o in out:
            ast.fix_missing_locations(o)
        return out

    def s_While(self, s, st):
        return self._loop(s, st, None)

    @staticmethod
    def _loop_views(s):
        """{loop target name: name of the array it is an element view of} for `for a, b in zip(A, B)` /
        `for i, (a, b) in enumerate(zip(A, B))` / `for a in A` with A, B plain names"""
        if not isinstance(s, ast.For):
            return {}
        tgt, it = s.target, s.iter
        if isinstance(it, ast.Call) and isinstance(it.func, ast.Name) and it.func.id == 'enumerate' and len(it.args) == 1 \
                and isinstance(tgt, ast.Tuple) and len(tgt.elts) == 2:
            tgt, it = tgt.elts[1], it.args[0]
        if isinstance(it, ast.Name) and isinstance(tgt, ast.Name):
            return {tgt.id: it.id}
        if isinstance(it, ast.Call) and isinstance(it.func, ast.Name) and it.func.id == 'zip' and isinstance(tgt, ast.Tuple) \
                and len(tgt.elts) == len(it.args) and not it.keywords:
            return {t.id: a.id for t, a in zip(tgt.elts, it.args) if isinstance(t, ast.Name) and isinstance(a, ast.Name)}
        return {}

    def _loop(self, s, st, it):
        line = s.lineno
        names = assigned_names(s.body)
        # element views written in the body (`for row in A: row[:] = ...`) update the array they belong to
        views = {t: arr for t, arr in self._loop_views(s).items() if t in names and arr in st.env}
        for arr in views.values():
            if arr not in names:
                names.append(arr)
        pre = {n: st.env.get(n) for n in names}
        for n in names:
            if n in st.env:
                st.env[n] = Poly.atom(('loop', f'{n}@{self.cur.name}:{line}', 'phi'))
        if it is not None and views:
            it = self.eval(s.iter, st)          # the arrays being iterated are loop-carried now: element views of their phi
        if it is not None:
            self.bind_loop_target(s.target, it, st, s)
        else:
            self.eval(s.test, st)
        view0 = {t: st.env.get(t) for t in views}
        self.loop_depth += 1
        try:
            body_states, done = self.exec_block(s.body, [st.fork()])
        finally:
            self.loop_depth -= 1
        for b in body_states:
            b.jump = None
            for t, arr in views.items():
                new, old = b.env.get(t), view0.get(t)
                oa = old.single_atom() if isinstance(old, Poly) else None
                phi_arr = Poly.atom(('loop', f'{arr}@{self.cur.name}:{line}', 'phi'))
                if new is not None and old is not None and new != old and oa is not None and oa[0] == 'idx' \
                        and b.env.get(arr) == phi_arr:
                    b.env[arr] = app('setitem', phi_arr, oa[2], new)
        info = {'node': s, 'func': self.owner_key(), 'in': self.cur.key, 'iter': it, 'pre': pre,
                'phi': {n: Poly.atom(('loop', f'{n}@{self.cur.name}:{line}', 'phi')) for n in names},
                'ends': [{n: b.env.get(n) for n in names} for b in body_states],
                'states': body_states, 'n_pre_events': len(st.events), 'n_pre_conds': len(st.conds),
                'conds': [b.conds[len(st.conds):] for b in body_states]}
        out = st
        seen = {id(e) for e in out.events}
        for b in body_states:
            for e in b.events:
                if id(e) not in seen:
                    seen.add(id(e))
                    out.events.append(e)
            for k, v in b.heap.items():
                out.heap[k] = v
            for lp in b.loops:
                if lp not in out.loops:
                    out.loops.append(lp)
        for n in names:
            out.env[n] = Poly.atom(('loop', f'{n}@{self.cur.name}:{line}', 'out'))
        out.loops.append(info)
        if s.orelse:
            c, d = self.exec_block(s.orelse, [out])
            return c, done + d
        return [out], done

    def s_Break(self, s, st):
        st.jump = 'break'
        return [st], []

    def s_Continue(self, s, st):
        st.jump = 'continue'
        return [st], []

    def s_With(self, s, st):
        for item in s.items:
            v = self.eval(item.context_expr, st)
            if item.optional_vars is not None:
                self.assign(item.optional_vars, v, st, s)
        return self.exec_block(s.body, [st])

    def s_Try(self, s, st):
        pre = st.fork()
        cont, done = self.exec_block(s.body, [st])
        if s.orelse:
            cont, d2 = self.exec_block(s.orelse, cont)
            done += d2
        for h in s.handlers:
            hs = pre.fork()
            # effects of the try body may have happened before the exception
            hs.events = list(cont[0].events) if cont else list(pre.events)
            exc = dotted(h.type) if h.type is not None else 'BaseException'
            hs.conds.append((app('except', Const(exc)), True, h))
            # the step that raised did not complete: rules that rely on an effect of the try body consult this mark
            self.log(hs, 'note', h, rule='except', start=len(pre.events))
            if h.name:
                hs.env[h.name] = Poly.atom(('fresh', fresh_id(), 'exc'))
            c, d = self.exec_block(h.body, [hs])
            cont += c
            done += d
        if s.finalbody:
            cont, d3 = self.exec_block(s.finalbody, cont)
            done += d3
        return cont, done


_RNG_SIGNATURES = {'normal': ('loc', 'scale', 'size'), 'poisson': ('lam', 'size'), 'lognormal': ('mean', 'sigma', 'size'),
                   'standard_normal': ('size',), 'uniform': ('low', 'high', 'size'), 'random': ('size',),
                   'exponential': ('scale', 'size'), 'binomial': ('n', 'p', 'size')}


def _known_mapping(v):
    """{name: value} of a dict literal / dict(...) call / captured **kwargs whose keys are all known."""
    a = v.single_atom() if isinstance(v, Poly) else None
    if a is not None and a[0] == 'app' and a[1] == 'setitem' and len(a[2]) == 3 and isinstance(a[2][1], Const) \
            and isinstance(a[2][1].value, str):
        base = _known_mapping(a[2][0])         # d[key] = value on a known mapping
        if base is None:
            return None
        base[a[2][1].value] = a[2][2]
        return base
    if a is None or a[0] != 'app' or a[1] not in ('dict', 'kwargs'):
        return None
    out = {}
    for item in a[2]:
        if not isinstance(item, Tup):
            return None
        pairs = [item] if (len(item) == 2 and isinstance(item.items[0], Const) and isinstance(item.items[0].value, str)) \
            else list(item.items)
        for pr in pairs:
            if not (isinstance(pr, Tup) and len(pr) == 2 and isinstance(pr.items[0], Const) and isinstance(pr.items[0].value, str)):
                return None
            out[pr.items[0].value] = pr.items[1]
    return out


def _loop_origins(s):
    """(loop variable, list variable) pairs of `for v in L`, `for i, v in enumerate(L)` and `for a, b in zip(L1, L2)`."""
    t, it = s.target, s.iter
    if isinstance(t, ast.Name) and isinstance(it, ast.Name):
        return [(t.id, it.id)]
    if isinstance(it, ast.Call) and isinstance(it.func, ast.Name) and not it.keywords and isinstance(t, ast.Tuple):
        if it.func.id == 'zip' and len(it.args) == len(t.elts):
            out = [(e.id, a.id) for e, a in zip(t.elts, it.args) if isinstance(e, ast.Name) and isinstance(a, ast.Name)]
            # zip((a, b), ...): the loop variable names the variable a, then b
            out += [(e.id, tuple(x.id for x in a.elts)) for e, a in zip(t.elts, it.args) if isinstance(e, ast.Name)
                    and isinstance(a, (ast.Tuple, ast.List)) and a.elts and all(isinstance(x, ast.Name) for x in a.elts)]
            return out
        if it.func.id == 'enumerate' and len(it.args) == 1 and len(t.elts) == 2 and isinstance(t.elts[1], ast.Name) \
                and isinstance(it.args[0], ast.Name):
            return [(t.elts[1].id, it.args[0].id)]
    return []


def _rooted(val, root):
    """``val`` is ``root`` after one or more in-place item assignments."""
    while isinstance(val, Poly):
        a = val.single_atom()
        if a is None or a[0] != 'app' or a[1] != 'setitem':
            return False
        val = a[2][0]
        if val == root:
            return True
    return False


def _fully_known(v):
    """a literal table entry: constants, classes / functions, and tuples of those"""
    if isinstance(v, Const):
        return True
    if isinstance(v, Poly):
        return v.const_value() is not None
    if isinstance(v, Tup):
        return all(_fully_known(i) for i in v.items)
    return False


def canon_cond(tv, pol):
    """Recorded path conditions are canonical: `not x` taken is `x` not taken."""
    for _ in range(8):
        a = tv.single_atom() if isinstance(tv, Poly) else None
        if a is not None and a[0] == 'app' and a[1] == 'not' and len(a[2]) == 1 and isinstance(a[2][0], Poly):
            tv, pol = a[2][0], not pol
        elif a is not None and a[0] == 'app' and a[1] in ('isnot', 'notin', 'ne') and len(a[2]) == 2:
            # `x is not y` taken == `x is y` not taken (likewise not in / !=)
            tv, pol = app({'isnot': 'is', 'notin': 'in', 'ne': 'eq'}[a[1]], *a[2]), not pol
        else:
            break
    return tv, pol


_IMPURE = ('m:', 'call:', 'callv', 'ext:', 'new:', 'mut:')


def _pure(v):
    """No atom of v can denote different values at two evaluations (no calls, methods, random draws)."""
    for a in nf.value_atoms(v):
        if a[0] in ('fresh', 'loop', 'iter'):
            return False
        if a[0] == 'app' and (a[1].startswith(_IMPURE) or 'rand' in a[1] or 'uniform' in a[1] or 'normal' in a[1]
                              or 'poisson' in a[1] or a[1] in ('next', 'iter', 'input', 'time')):
            return False
    return True


def _literals(c, pol, out):
    """Flatten a taken condition into (term, truth) literals: and(..)=True and or(..)=False distribute."""
    a = c.single_atom() if isinstance(c, Poly) else None
    if a is not None and a[0] == 'app' and a[1] == 'not' and isinstance(a[2][0], Poly):
        return _literals(a[2][0], not pol, out)
    if a is not None and a[0] == 'app' and ((a[1] == 'and' and pol) or (a[1] == 'or' and not pol)):
        for x in a[2]:
            if isinstance(x, Poly):
                _literals(x, pol, out)
        return
    out.append((c, pol))


def _as_bound(c):
    """cond `x op const` -> (x, op, const) with op in lt/le/gt/ge/eq/ne, else None"""
    a = c.single_atom() if isinstance(c, Poly) else None
    if a is None or a[0] != 'app' or a[1] not in ('lt', 'le', 'eq', 'ne') or len(a[2]) != 2:
        return None
    x, y = a[2]
    if not (isinstance(x, Poly) and isinstance(y, Poly)):
        return None
    cx, cy = x.const_value(), y.const_value()
    if cy is not None and cx is None:
        return x, a[1], cy
    if cx is not None and cy is None:
        return y, {'lt': 'gt', 'le': 'ge', 'eq': 'eq', 'ne': 'ne'}[a[1]], cx
    return None


_NEG = {'lt': 'ge', 'le': 'gt', 'gt': 'le', 'ge': 'lt', 'eq': 'ne', 'ne': 'eq'}


def implied(tv, conds):
    """Truth of condition ``tv`` as far as the conditions already taken on this path decide it
    (same pure test repeated, or a comparison with a constant decided by earlier comparisons of the
    same term with constants); None when they do not."""
    if not isinstance(tv, Poly) or not conds:
        return None
    ctv, cpol = canon_cond(tv, True)
    if ctv != tv:
        r = implied(ctv, conds)
        return None if r is None else (r if cpol else not r)
    a = tv.single_atom()
    if a is not None and a[0] == 'app' and a[1] == 'not' and isinstance(a[2][0], Poly):
        r = implied(a[2][0], conds)
        return None if r is None else not r
    if a is not None and a[0] == 'app' and a[1] in ('and', 'or') and all(isinstance(x, Poly) for x in a[2]):
        rs = [implied(x, conds) for x in a[2]]
        if a[1] == 'and':
            return False if any(r is False for r in rs) else (True if all(r is True for r in rs) else None)
        return True if any(r is True for r in rs) else (False if all(r is False for r in rs) else None)
    if not _pure(tv):
        return None
    lits = []
    for c, pol, _ in conds:
        _literals(c, pol, lits)
    for c, pol in lits:
        if c == tv:
            return pol
    b = _as_bound(tv)
    if b is None:
        return None
    x, op, cst = b
    lo, lo_s, hi, hi_s, excl = None, False, None, False, set()
    for c, pol in lits:
        bb = _as_bound(c)
        if bb is None or bb[0] != x:
            continue
        o, k = (bb[1] if pol else _NEG[bb[1]]), bb[2]
        if o == 'eq':
            if lo is None or k > lo or (k == lo and lo_s):
                lo, lo_s = k, False
            if hi is None or k < hi or (k == hi and hi_s):
                hi, hi_s = k, False
        elif o == 'ne':
            excl.add(k)
        elif o in ('gt', 'ge'):
            if lo is None or k > lo or (k == lo and o == 'gt'):
                lo, lo_s = k, o == 'gt'
        else:
            if hi is None or k < hi or (k == hi and o == 'lt'):
                hi, hi_s = k, o == 'lt'

    def decide(o):
        if o == 'lt':
            if hi is not None and (hi < cst or (hi == cst and hi_s)):
                return True
            if lo is not None and lo >= cst:
                return False
        elif o == 'le':
            if hi is not None and hi <= cst:
                return True
            if lo is not None and (lo > cst or (lo == cst and lo_s)):
                return False
        elif o == 'eq':
            if lo is not None and hi is not None and lo == hi == cst and not lo_s and not hi_s:
                return True
            if cst in excl or (lo is not None and (cst < lo or (cst == lo and lo_s))) or \
                    (hi is not None and (cst > hi or (cst == hi and hi_s))):
                return False
        return None
    if op in ('lt', 'le', 'eq'):
        return decide(op)
    r = decide(_NEG[op])
    return None if r is None else not r


class _Raised(Exception):
    def __init__(self, exc, node):
        self.exc = exc
        self.node = node
