"""Obligations, findings, known findings, evidence and exit codes."""
import json
import os
import sys
import time

VERIF = os.path.dirname(os.path.dirname(os.path.abspath(__file__)))


def evidence_dir():
    return os.environ.get('LSA_EVIDENCE_DIR') or os.path.join(VERIF, 'evidence')


class Obligation:
    __slots__ = ('clause', 'rule', 'construct', 'role', 'ok', 'detail', 'loc', 'facts')

    def __init__(self, clause, rule, construct, role, ok, detail='', loc='', facts=None):
        self.clause = clause        # 'C01-a'
        self.rule = rule            # short rule id, e.g. 'N-identity'
        self.construct = construct  # 'fourier.dft2'
        self.role = role            # what inside the construct
        self.ok = ok                # True / False
        self.detail = detail
        self.loc = loc
        self.facts = facts or {}

    @property
    def key(self):
        return f'{self.clause}|{self.construct}|{self.role}'

    def as_dict(self):
        return {'clause': self.clause, 'rule': self.rule, 'construct': self.construct,
                'role': self.role, 'ok': self.ok, 'detail': self.detail, 'loc': self.loc,
                'facts': self.facts}


def load_known():
    path = os.path.join(VERIF, 'known_findings.json')
    if not os.path.exists(path):
        return {'known': [], 'fixed': []}
    with open(path) as fh:
        return json.load(fh)


class _Guard:
    def __init__(self, chk, clause, construct, role):
        self.chk, self.clause, self.construct, self.role = chk, clause, construct, role

    def __enter__(self):
        return self

    def __exit__(self, et, ev, tb):
        from .model import AnalysisError, AnchorMissing
        from .state import PathLimit
        if et is not None and issubclass(et, (AnalysisError, PathLimit)) and not issubclass(et, AnchorMissing):
            clauses = self.clause if isinstance(self.clause, (list, tuple)) else [self.clause]
            for c in clauses:
                self.chk.undecided(c, 'undecided', self.construct, self.role, f'code shape not understood: {ev}')
            return True
        return False


class Check:
    def __init__(self, prop_id, tier='quick'):
        self.prop_id = prop_id
        self.tier = tier
        self.obligations = []
        self.floors = {}        # clause -> minimum number of obligations
        self.clause_text = {}   # clause -> one-line description
        self.not_decided = []
        self.assumptions = []
        self.stats = {}
        self.t0 = time.time()

    # ------------------------------------------------------------------ API
    def clause(self, cid, text, floor=1):
        self.clause_text[cid] = text
        self.floors[cid] = floor

    def ob(self, clause, rule, construct, role, ok, detail='', loc='', **facts):
        """ok: True (discharged) / False (definite violation) / None (undecided: the rule
        does not recognise the code shape and gives no verdict)."""
        o = Obligation(clause, rule, construct, role, None if ok is None else bool(ok), detail, loc,
                       {k: str(v) for k, v in facts.items()})
        self.obligations.append(o)
        return o

    def undecided(self, clause, rule, construct, role, why, loc=''):
        return self.ob(clause, rule, construct, role, None, why, loc)

    def guard(self, clause, construct, role='rule applicable'):
        """Context manager: an AnalysisError inside (code shape not understood) becomes an
        undecided obligation of `clause`; a vanished anchor still aborts the run."""
        return _Guard(self, clause, construct, role)

    def require(self, cond, msg):
        if not cond:
            from .model import AnalysisError
            raise AnalysisError(msg)

    # --------------------------------------------------------------- finish
    def finish(self):
        from .model import AnalysisError
        counts = {}
        for o in self.obligations:
            counts[o.clause] = counts.get(o.clause, 0) + 1
        undec = {o.clause for o in self.obligations if o.ok is None}
        failed_clauses = {o.clause for o in self.obligations if o.ok is False}
        short = [(cid, floor) for cid, floor in self.floors.items()
                 if counts.get(cid, 0) < floor and cid not in undec]
        known = load_known()
        known_keys = {k['key']: k for k in known.get('known', []) if k.get('property') == self.prop_id}
        failures = [o for o in self.obligations if o.ok is False]
        undecided = [o for o in self.obligations if o.ok is None]
        seen_u = set()
        for o in undecided:
            if o.key not in seen_u:
                seen_u.add(o.key)
                print(f'UNDECIDED property={self.prop_id} {o.clause} {o.construct} [{o.role}] {o.detail[:300]}')
        new, listed = [], []
        seen = set()
        for o in failures:
            if o.key in seen:
                continue
            seen.add(o.key)
            (listed if o.key in known_keys else new).append(o)
        for o in listed:
            print(f'KNOWN-FINDING: property={self.prop_id} {o.clause} {o.construct} [{o.role}] {o.detail}')
        replay_dir = os.path.join(evidence_dir(), 'replay')
        for o in new:
            os.makedirs(replay_dir, exist_ok=True)
            fn = f'{self.prop_id}-' + ''.join(ch if ch.isalnum() else '_' for ch in o.key)[:120] + '.json'
            rp = os.path.join(replay_dir, fn)
            with open(rp, 'w') as fh:
                json.dump({'property': self.prop_id, 'obligation': o.as_dict(),
                           'explain_cmd': f'/venv/bin/python -m lsa {self.prop_id} --explain "{o.key}"'},
                          fh, indent=1)
            print(f'FINDING {o.clause} [{o.rule}] {o.construct} :: {o.role} @ {o.loc}\n    {o.detail}')
            print(f'VIOLATION property={self.prop_id} replay={rp}')
        if short and not new:
            # no violation to report and a clause matched fewer constructs than confirmed by hand:
            # a vacuous pass is refused (exit 2).  With a violation in hand that is the answer (exit 1).
            cid, floor = short[0]
            if getattr(self, 'strict', True):
                raise AnalysisError(f'{cid}: only {counts.get(cid, 0)} rule instances, floor is {floor} '
                                    f'(vacuous pass refused)')
            # a tree other than the pinned one: fewer constructs matched than on the pinned tree - say so, decide nothing
            for cid, floor in short:
                print(f'UNDECIDED property={self.prop_id} {cid} [rule instances] only {counts.get(cid, 0)} of the {floor} '
                      f'constructs confirmed on the pinned tree were recognised in this tree')
        self.write_evidence(len(new), listed)
        return 1 if new else 0

    def write_evidence(self, nviol, listed):
        obs = self.obligations
        per_clause = {}
        for o in obs:
            d = per_clause.setdefault(o.clause, {'text': self.clause_text.get(o.clause, ''),
                                                 'instances': 0, 'discharged': 0})
            d['instances'] += 1
            d['discharged'] += int(o.ok is True)
            d['undecided'] = d.get('undecided', 0) + int(o.ok is None)
        distinct = len({o.key for o in obs})
        seen_cl, samples = set(), []
        for o in obs:                      # one sample obligation per clause, then the failing ones
            if o.clause not in seen_cl:
                seen_cl.add(o.clause)
                samples.append(o.as_dict())
        samples += [o.as_dict() for o in obs if o.ok is False][:6]
        samples += [o.as_dict() for o in obs if o.ok is None][:6]
        from .interp import STATS
        from .model import Repo, repo_root
        analysed = {
            'repository_root': repo_root(),
            'functions_interpreted': len(STATS['functions']),
            'function_list': sorted(STATS['functions'])[:60],
            'interpreter_runs': STATS['runs'],
            'syntactic_paths_enumerated': STATS['paths'],
            'internal_call_events_resolved': STATS['calls_internal'],
            'external_call_events_modelled': STATS['calls_external'],
            'call_events_unresolved': STATS['calls_unresolved'],
            'constructs_with_obligations': sorted({o.construct for o in obs})[:60],
            'rules_applied': sorted({o.rule for o in obs}),
        }
        ev = {
            'property_id': self.prop_id,
            'tier': self.tier,
            'seed': int(os.environ.get('VERIF_SEED', '0') or 0),
            'level': 'other',
            'coverage': {
                'explanation': ('Static analysis of the current source of $LENTIL_REPO (ast only, nothing '
                                'executed). Decided clauses (necessary conditions of the property): '
                                + '; '.join(f'{c}: {t}' for c, t in self.clause_text.items())
                                + '. NOT decided: ' + ('; '.join(self.not_decided) or 'n/a')),
                'obligations': len(obs),
                'discharged': sum(1 for o in obs if o.ok is True),
                'undecided': sum(1 for o in obs if o.ok is None),
                'undecided_keys': sorted({o.key for o in obs if o.ok is None})[:40],
                'evaluations': len(obs),
                'distinct_nontrivial': distinct,
                'rule': 'one obligation per (clause, construct, role) rule instance found in the source; '
                        'distinct = distinct keys; floors per clause refuse vacuous passes',
                'samples': samples,
                'per_clause': per_clause,
                'analysed': analysed,
                'known_findings_reported': [o.key for o in listed],
                'exhaustive': False,
                **self.stats,
            },
            'assumptions': self.assumptions or [
                'CPython ast parses the package as the interpreter would',
                'numpy/scipy behave as modelled in lsa/npmodel.py (DESIGN appendix C)'],
            'wall_s': round(time.time() - self.t0, 3),
            'violations': nviol,
        }
        os.makedirs(evidence_dir(), exist_ok=True)
        with open(os.path.join(evidence_dir(), f'{self.prop_id}.json'), 'w') as fh:
            json.dump(ev, fh, indent=1, default=str)
