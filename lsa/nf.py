"""Algebraic normal forms (engine N).

Values are sums of monomials with exact rational coefficients and rational
exponents over opaque *atoms* (symbols, attribute/index chains, uninterpreted
applications whose arguments are themselves normalised).  This is the term
domain of global value numbering; nothing is evaluated numerically and no
path condition is ever solved.
"""
from fractions import Fraction
import functools
import math

I_ATOM = ('I',)
PI_ATOM = ('pi',)

COMMUTATIVE_APPS = {'max', 'min', 'maximum', 'minimum', 'hypot', 'and', 'or',
                    'eq', 'ne', 'array_equal'}


# ----------------------------------------------------------------- canonical key
@functools.lru_cache(maxsize=None)
def akey(a):
    """Canonical, total-order string key of an atom (tuple)."""
    return '(' + ','.join(vkey(x) for x in a) + ')'


def vkey(v):
    if isinstance(v, Poly):
        return v.key
    if isinstance(v, (Tup, Const, Slice)):
        return v.key
    if isinstance(v, tuple):
        return akey(v)
    if isinstance(v, Fraction):
        return f'#{v.numerator}/{v.denominator}'
    return repr(v)


class Const:
    """A python constant that is not a number: None, True/False, str, ..."""
    __slots__ = ('value', 'key')

    def __init__(self, value):
        self.value = value
        self.key = f'K<{type(value).__name__}:{value!r}>'

    def __eq__(self, other):
        return isinstance(other, Const) and self.key == other.key

    def __hash__(self):
        return hash(self.key)

    def __repr__(self):
        return repr(self.value)


NONE = Const(None)
TRUE = Const(True)
FALSE = Const(False)
ELLIPSIS = Const(Ellipsis)


class Tup:
    """tuple / list / numpy vector with known items."""
    __slots__ = ('items', 'kind', 'key')

    def __init__(self, items, kind='tuple'):
        self.items = tuple(items)
        self.kind = kind
        self.key = 'T[' + ','.join(vkey(i) for i in self.items) + ']'

    def __eq__(self, other):
        return isinstance(other, Tup) and self.key == other.key

    def __hash__(self):
        return hash(self.key)

    def __len__(self):
        return len(self.items)

    def __iter__(self):
        return iter(self.items)

    def __repr__(self):
        o, c = {'tuple': '()', 'list': '[]', 'vec': '<>'}[self.kind]
        return o + ', '.join(fmt(i) for i in self.items) + c


class Slice:
    __slots__ = ('lo', 'hi', 'step', 'key')

    def __init__(self, lo, hi, step=None):
        lo = NONE if lo is None else lo
        hi = NONE if hi is None else hi
        step = NONE if step is None else step
        self.lo, self.hi, self.step = lo, hi, step
        # equality is modulo 0:n == :n and a:b:1 == a:b (the written bounds stay available)
        klo = NONE if isinstance(lo, Poly) and lo.is_zero() else lo
        kstep = NONE if isinstance(step, Poly) and step.const_value() == 1 else step
        self.key = f'S[{vkey(klo)}:{vkey(hi)}:{vkey(kstep)}]'

    def __eq__(self, other):
        return isinstance(other, Slice) and self.key == other.key

    def __hash__(self):
        return hash(self.key)

    def __repr__(self):
        f = lambda x: '' if x is None or x == NONE else fmt(x)
        s = f'{f(self.lo)}:{f(self.hi)}'
        if self.step is not None and self.step != NONE:
            s += f':{f(self.step)}'
        return s


# ------------------------------------------------------------------------- Poly
class Poly:
    """Immutable normal form: tuple of (monomial, coefficient); a monomial is
    a tuple of (atom, exponent) sorted by atom key."""
    __slots__ = ('terms', 'key', '_hash')

    def __init__(self, terms):
        self.terms = terms
        self.key = 'P{' + ';'.join(
            f'{c.numerator}/{c.denominator}*' + '*'.join(f'{akey(a)}^{e.numerator}/{e.denominator}'
                                                            for a, e in m)
            for m, c in terms) + '}'
        self._hash = hash(self.key)

    # -- construction
    @staticmethod
    def from_dict(d):
        items = [(m, c) for m, c in d.items() if c != 0]
        items.sort(key=lambda mc: _mkey(mc[0]))
        return Poly(tuple(items))

    @staticmethod
    def const(c):
        c = Fraction(c)
        return Poly((((), c),)) if c != 0 else ZERO

    @staticmethod
    def atom(a, e=1):
        return Poly((((_canon_pair(a, Fraction(e)),), Fraction(1)),))

    def __eq__(self, other):
        return isinstance(other, Poly) and self.key == other.key

    def __hash__(self):
        return self._hash

    # -- queries
    def is_zero(self):
        return not self.terms

    def is_const(self):
        return not self.terms or (len(self.terms) == 1 and self.terms[0][0] == ())

    def const_value(self):
        if not self.terms:
            return Fraction(0)
        if self.is_const():
            return self.terms[0][1]
        return None

    def single_atom(self):
        """The atom if this is exactly 1*atom^1, else None."""
        if len(self.terms) == 1:
            m, c = self.terms[0]
            if c == 1 and len(m) == 1 and m[0][1] == 1:
                return m[0][0]
        return None

    def atoms(self, deep=True):
        """Set of atoms occurring (recursively through app arguments)."""
        out = set()
        for m, _ in self.terms:
            for a, _e in m:
                out.add(a)
                if deep:
                    out |= atom_subatoms(a)
        return out

    def monomials(self):
        return self.terms

    # -- arithmetic
    def __add__(self, other):
        other = as_poly(other)
        d = dict(self.terms)
        for m, c in other.terms:
            d[m] = d.get(m, 0) + c
        return Poly.from_dict(d)

    __radd__ = __add__

    def __neg__(self):
        return Poly(tuple((m, -c) for m, c in self.terms))

    def __sub__(self, other):
        return self + (-as_poly(other))

    def __rsub__(self, other):
        return as_poly(other) - self

    def __mul__(self, other):
        other = as_poly(other)
        if not self.terms or not other.terms:
            return ZERO
        r = _cancel_mul(self, other)
        if r is not None:
            return r
        d = {}
        for m1, c1 in self.terms:
            for m2, c2 in other.terms:
                m, k = _mono_mul(m1, m2)
                d[m] = d.get(m, 0) + c1 * c2 * k
        return Poly.from_dict(d)

    __rmul__ = __mul__

    def __truediv__(self, other):
        return self * as_poly(other).pow(-1)

    def __rtruediv__(self, other):
        return as_poly(other) * self.pow(-1)

    def pow(self, e):
        e = Fraction(e)
        if e == 0:
            return ONE
        if e == 1:
            return self
        if not self.terms:
            return ZERO if e > 0 else Poly.atom(('app', 'inf', ()))
        if len(self.terms) == 1:
            m, c = self.terms[0]
            cp = _const_pow(c, e)
            mono, k = _mono_norm([(a, x * e) for a, x in m])
            return cp * Poly(((mono, k),)) if k != 0 else ZERO
        if e.denominator == 1 and 1 < e <= 6 and len(self.terms) ** int(e) <= 4096:
            r = self
            for _ in range(int(e) - 1):
                r = r * self
            return r
        c, q = self.content()
        if e.denominator != 1 and c < 0:
            # keep the sign inside the radicand: sqrt(-2a + b) is not sqrt(-1)*sqrt(2a - b)
            c, q = -c, -q
        mono, q = q.common_monomial()
        r = _const_pow(c, e) * Poly.atom(('poly', q), e)
        if mono:
            r = r * Poly(((mono, Fraction(1)),)).pow(e)
        return r

    def __pow__(self, e):
        if isinstance(e, Poly):
            cv = e.const_value()
            if cv is not None:
                return self.pow(cv)
            return Poly.atom(('app', 'pow', (self, e)))
        return self.pow(e)

    def content(self):
        """(c, Q) with self = c*Q, Q primitive with positive leading coeff."""
        if not self.terms:
            return Fraction(1), self
        nums = [abs(c.numerator) for _, c in self.terms]
        dens = [c.denominator for _, c in self.terms]
        g = functools.reduce(math.gcd, nums)
        l = functools.reduce(lambda a, b: a * b // math.gcd(a, b), dens)
        c = Fraction(g, l)
        if self.terms[0][1] < 0:
            c = -c
        return c, Poly(tuple((m, k / c) for m, k in self.terms))

    def common_monomial(self):
        """(M, Q) with self = M*Q where M collects, for every atom present in
        all terms, its minimum exponent (may be negative)."""
        if len(self.terms) < 2:
            return (), self
        common = None
        for m, _ in self.terms:
            d = dict(m)
            if common is None:
                common = d
            else:
                common = {a: min(e, d[a]) for a, e in common.items() if a in d}
            if not common:
                return (), self
        mono = tuple(sorted(common.items(), key=lambda ae: akey(ae[0])))
        inv = Poly(((tuple((a, -e) for a, e in mono), Fraction(1)),))
        return mono, self * inv

    # -- substitution
    def subst(self, mapping):
        """Replace atoms (keys of mapping) by values (Poly)."""
        if not mapping:
            return self
        total = ZERO
        for m, c in self.terms:
            t = Poly.const(c)
            for a, e in m:
                t = t * as_poly(subst_atom(a, mapping)).pow(e)
            total = total + t
        return total

    def __repr__(self):
        return fmt(self)


def _mkey(m):
    return ';'.join(f'{akey(a)}^{e}' for a, e in m)


def _canon_pair(a, e):
    return (a, e)


def _mono_norm(pairs):
    """Merge equal atoms, fold special atoms; returns (mono, coefficient)."""
    d = {}
    for a, e in pairs:
        d[a] = d.get(a, 0) + e
    k = Fraction(1)
    out = []
    for a, e in d.items():
        if e == 0:
            continue
        if a == I_ATOM and e.denominator == 1:
            r = int(e) % 4
            if r >= 2:
                k = -k
            if r % 2:
                out.append((a, Fraction(1)))
            continue
        if a[0] == 'num' and e.denominator == 1:
            k *= a[1] ** int(e)
            continue
        out.append((a, e))
    out.sort(key=lambda ae: akey(ae[0]))
    return tuple(out), k


def _mono_mul(m1, m2):
    if not m1:
        return m2, Fraction(1)
    if not m2:
        return m1, Fraction(1)
    return _mono_norm(list(m1) + list(m2))


def _iroot(n, k):
    """Exact integer k-th root of n >= 0, or None."""
    if n < 0:
        return None
    r = round(n ** (1.0 / k)) if n < 1 << 52 else int(n ** (1.0 / k))
    for c in (r - 1, r, r + 1):
        if c >= 0 and c ** k == n:
            return c
    return None


def _const_pow(c, e):
    c = Fraction(c)
    if e.denominator == 1:
        if c == 0 and e < 0:
            return Poly.atom(('app', 'inf', ()))
        return Poly.const(c ** int(e))
    if c > 0:
        small = e.denominator <= 12 and abs(e.numerator) <= 64
        rn = _iroot(c.numerator, e.denominator) if small else None
        rd = _iroot(c.denominator, e.denominator) if small else None
        if rn is not None and rd is not None:
            return Poly.const(Fraction(rn, rd) ** e.numerator)
        return Poly.atom(('num', c), e)
    if c == 1:
        return ONE
    return Poly.atom(('app', 'cpow', (Poly.const(c), Poly.const(e))))


def _cancel_mul(a, b):
    """(c*Q) * (k * poly(Q)^e ...) with e<0 -> cancel one power."""
    for x, y in ((a, b), (b, a)):
        if len(y.terms) == 1 and len(x.terms) > 1:
            m, k = y.terms[0]
            for i, (at, e) in enumerate(m):
                if at[0] == 'poly' and e <= -1:
                    c, q = x.content()
                    if q == at[1]:
                        rest = list(m[:i]) + list(m[i + 1:])
                        if e + 1 != 0:
                            rest.append((at, e + 1))
                        mono, kk = _mono_norm(rest)
                        return Poly(((mono, k * c * kk),))
    return None


ZERO = Poly(())
ONE = Poly((((), Fraction(1)),))
I = Poly.atom(I_ATOM)
PI = Poly.atom(PI_ATOM)


def as_poly(x):
    if isinstance(x, Poly):
        return x
    if isinstance(x, bool):
        return Poly.const(int(x))
    if isinstance(x, (int, Fraction)):
        return Poly.const(x)
    if isinstance(x, float):
        return Poly.const(Fraction(repr(x)))
    if isinstance(x, tuple):
        return Poly.atom(x)
    raise TypeError(f'not a polynomial: {x!r}')


def sym(name):
    return Poly.atom(('sym', name))


def app(name, *args, **kw):
    args = tuple(args)
    if name in ('and', 'or', 'max', 'min') and not kw:
        flat = []
        for x in args:            # and(and(a, b), c) == and(a, b, c)
            xa = x.single_atom() if isinstance(x, Poly) else None
            if xa is not None and xa[0] == 'app' and xa[1] == name and all(isinstance(y, Poly) for y in xa[2]):
                flat.extend(xa[2])
            else:
                flat.append(x)
        args = tuple(flat)
    if name in COMMUTATIVE_APPS:
        args = tuple(sorted(args, key=vkey))
    if name == 'abs' and len(args) == 1 and isinstance(args[0], Poly) and not kw:
        args = (_abs_canonical(args[0]),)
    if kw:
        args = args + (Tup([Tup([Const(k), v]) for k, v in sorted(kw.items())], 'tuple'),)
    return Poly.atom(('app', name, args))


def _abs_canonical(p):
    """|p| = |-p|: of p and -p the one whose key sorts first"""
    if not p.terms:
        return p
    first = min(p.terms, key=lambda t: repr(t[0]))          # a fixed term of the polynomial: make its coefficient positive
    return p if first[1] > 0 else -p


def attr(base, name):
    """Attribute of a value that is a single atom."""
    a = base.single_atom() if isinstance(base, Poly) else None
    if a is None:
        a = ('val', base)
    # a converted / copied array has the shape of the original
    while name in ('shape', 'ndim', 'size') and a[0] == 'app' and a[1] in ('cast', 'm:astype', 'copy', 'm:copy') and a[2] \
            and isinstance(a[2][0], Poly) and a[2][0].single_atom() is not None:
        a = a[2][0].single_atom()
    if name == 'ndim' and a[0] == 'idx':
        # x[np.newaxis], x[..., np.newaxis], x[np.newaxis, :, :]: one more axis per newaxis, nothing else changes
        key = a[2]
        items = list(key.items) if isinstance(key, Tup) else [key]
        added = sum(1 for i in items if i == NONE)
        rest_ok = all(i == NONE or i == ELLIPSIS or (isinstance(i, Slice) and i.lo in (NONE, None) and i.hi in (NONE, None)
                                                     and i.step in (NONE, None)) for i in items)
        if added and rest_ok:
            return attr(Poly.atom(a[1]), 'ndim') + added
    return Poly.atom(('attr', a, name))


def _scalar_index(k):
    """k is certainly one integer (not a mask / index array / slice)"""
    if not isinstance(k, Poly):
        return False
    if k.const_value() is not None:
        return k.const_value().denominator == 1
    for m, c in k.terms:
        if Fraction(c).denominator != 1:
            return False
        for a, e in m:
            if not is_integer_atom(a) or e < 0 or Fraction(e).denominator != 1:
                return False
    return True


def _nonneg_index(k):
    """a non-negative integer index: a constant >= 0 or a non-negative combination of iteration counters"""
    if not isinstance(k, Poly):
        return False
    if k.const_value() is not None:
        return k.const_value() >= 0 and k.const_value().denominator == 1
    for m, c in k.terms:
        if c < 0 or Fraction(c).denominator != 1:
            return False
        for a, e in m:
            if a[0] != 'iter' or e < 0:
                return False
    return True


def _plain_slice(s):
    return isinstance(s, Slice) and s.step in (NONE, None)


def compose_keys(k1, k2):
    """Key k with x[k1][k2] == x[k] for basic indexing, or None when not certain."""
    i1 = list(k1.items) if isinstance(k1, Tup) and k1.kind != 'vec' else [k1]
    i2 = list(k2.items) if isinstance(k2, Tup) and k2.kind != 'vec' else [k2]
    if any(isinstance(i, Tup) for i in i1 + i2) or ELLIPSIS in i1 or ELLIPSIS in i2:
        return None
    if all(_scalar_index(i) for i in i1):
        if all(_scalar_index(i) or _plain_slice(i) for i in i2):
            return Tup(i1 + i2)
        return None
    if len(i1) == 1 and isinstance(i1[0], Slice) and len(i2) == 1 and _nonneg_index(i2[0]) and \
            isinstance(i1[0].lo, (Poly, Const)) and (i1[0].step == NONE or (isinstance(i1[0].step, Poly)
                                                                         and (i1[0].step.const_value() or 0) > 0)):
        a = Poly.const(0) if i1[0].lo == NONE else i1[0].lo
        if isinstance(a, Poly):
            return a + (i2[0] if i1[0].step == NONE else i1[0].step * i2[0])
    if len(i1) == 1 and _plain_slice(i1[0]) and len(i2) >= 1 and isinstance(i1[0].lo, (Poly, Const)):
        a = Poly.const(0) if i1[0].lo == NONE else i1[0].lo
        b = i1[0].hi
        f = i2[0]
        if not isinstance(a, Poly):
            return None
        if _scalar_index(f) and f.const_value() is not None and f.const_value() >= 0:
            first = a + f
        elif _plain_slice(f):
            c = Poly.const(0) if f.lo == NONE else f.lo
            d = f.hi
            if not (isinstance(c, Poly) and c.const_value() is not None and c.const_value() >= 0):
                return None
            if d == NONE:
                hi = b
            else:
                if not (isinstance(d, Poly) and d.const_value() is not None and d.const_value() >= 0 and isinstance(b, Poly)):
                    return None
                width = (b - a).const_value()
                if width is None or d.const_value() > width:
                    return None
                hi = a + d
            first = Slice(a + c, hi)
        else:
            return None
        rest = i2[1:]
        if not all(_scalar_index(i) or _plain_slice(i) for i in rest):
            return None
        return first if not rest else Tup([first] + rest)
    return None


def index(base, key):
    a = base.single_atom() if isinstance(base, Poly) else None
    if a is not None and a[0] == 'attr' and a[2] == 'shape' and isinstance(key, Slice) and key.step in (NONE, None) and \
            key.lo in (NONE, None, ZERO) and isinstance(key.hi, Poly) and key.hi.const_value() is not None and \
            0 <= key.hi.const_value() <= 4:
        # x.shape[:k]: the first k dimensions (x.shape[:0] is the empty tuple)
        return Tup([Poly.atom(('idx', a, Poly.const(i))) for i in range(int(key.hi.const_value()))])
    if a is None and isinstance(base, Poly) and len(base.terms) > 1 and _scalar_index(key):
        # (u[1::2] - u[0::2] + 1)[k]: arithmetic of slices is element-wise, so the entry is the arithmetic of the entries
        # (only when every non-constant term is a plain multiple of one slice, which is certainly an array)
        def sliced(m):
            return len(m) == 1 and m[0][1] == 1 and m[0][0][0] == 'idx' and isinstance(m[0][0][2], Slice)
        if all((not m) or sliced(m) for m, _ in base.terms):
            out = ZERO
            for m, c in base.terms:
                out = out + (Poly.const(c) if not m else Poly.const(c) * index(Poly.atom(m[0][0]), key))
            return out
    if a is None:
        a = ('val', base)
    if a[0] == 'app' and a[1] in ('where',) and len(a[2]) == 3 and isinstance(key, Poly) and key.const_value() is not None and \
            any(isinstance(x, Tup) or (isinstance(x, Poly) and x.single_atom() is not None and x.single_atom()[0] == 'val'
                                       and isinstance(x.single_atom()[1], Tup)) for x in a[2]):
        # np.where over short vectors, element k: where(c[k], p[k], q[k]) (scalars broadcast)
        def part(x):
            if isinstance(x, Poly) and x.single_atom() is not None and x.single_atom()[0] == 'val' and isinstance(x.single_atom()[1], Tup):
                x = x.single_atom()[1]
            if isinstance(x, Tup):
                k = int(key.const_value())
                return x.items[k] if -len(x) <= k < len(x) else None
            xa = x.single_atom() if isinstance(x, Poly) else None
            if xa is not None and xa[0] == 'app' and xa[1] in ('le', 'lt', 'eq', 'ne') and len(xa[2]) == 2:
                l, r = part(xa[2][0]), part(xa[2][1])
                return app(xa[1], l, r) if l is not None and r is not None else None
            if isinstance(x, Poly) and x.const_value() is not None:
                return x
            return None
        parts = [part(x) for x in a[2]]
        if all(p_ is not None and isinstance(p_, Poly) for p_ in parts):
            return app('where', *parts)
    if a[0] == 'app' and a[1] in ('arange', 'range') and isinstance(key, Poly) and key.single_atom() is not None and \
            key.single_atom()[0] == 'iter' and all(isinstance(x, Poly) for x in a[2]) and 1 <= len(a[2]) <= 3:
        # element k (a loop position, so 0 <= k < len) of an arithmetic progression: start + k*step
        start = a[2][0] if len(a[2]) > 1 else ZERO
        step = a[2][2] if len(a[2]) == 3 else ONE
        return start + key * step
    if a[0] == 'app' and a[1] == 'listcomp' and len(a[2]) == 2 and isinstance(key, Poly) and isinstance(a[2][0], Tup) and \
            all(isinstance(i, Poly) for i in a[2][0].items):
        # [(f(i), g(i)) for i in range(n)][k] = (f(k), g(k))
        src = a[2][1].single_atom() if isinstance(a[2][1], Poly) else None
        its = set()
        for i in a[2][0].items:
            its |= {x for x in value_atoms(i) if x[0] == 'iter'}
        if src is not None and src[0] == 'app' and src[1] in ('range', 'arange') and len(src[2]) == 1 and len(its) == 1:
            return Tup([subst_value(i, {next(iter(its)): key}) for i in a[2][0].items], a[2][0].kind)
    if a[0] == 'app' and a[1] == 'listcomp' and len(a[2]) == 2 and isinstance(key, Poly) and isinstance(a[2][0], Poly):
        # [body(i) for i in range(n)][k] = body(k)
        src = a[2][1].single_atom() if isinstance(a[2][1], Poly) else None
        its = {x for x in value_atoms(a[2][0]) if x[0] == 'iter'}
        if src is not None and src[0] == 'app' and src[1] in ('range', 'arange') and len(src[2]) == 1 and len(its) == 1:
            return subst_value(a[2][0], {next(iter(its)): key})
        if not its and _scalar_index(key):
            return a[2][0]          # [body for _ in seq][k] with a body that does not mention the position: body
        # [body(seq[i]) for .. in seq][k] = body(seq[k]): the body reads the sequence only at the comprehension's position
        if src is not None and len(its) == 1 and _scalar_index(key):
            it = next(iter(its))
            uses = [x for x in value_atoms(a[2][0]) if x[0] == 'idx' and x[1] == src]
            if uses and all(x[2] == Poly.atom(it) for x in uses) and \
                    it not in value_atoms(subst_value(a[2][0], {x: sym('@elem') for x in uses})):
                return subst_value(a[2][0], {it: key})
    if a[0] == 'idx' and a[1][0] == 'app' and a[1][1] == 'zip' and isinstance(key, Poly) and key.const_value() is not None \
            and _scalar_index(a[2]) and all(isinstance(x, (Poly, Tup)) for x in a[1][2]):
        # zip(A, B)[i][j] is (A, B)[j][i]
        j = int(key.const_value())
        if 0 <= j < len(a[1][2]):
            src = a[1][2][j]
            if isinstance(src, Tup):
                ci = a[2].const_value()
                if ci is not None and 0 <= int(ci) < len(src):
                    return src.items[int(ci)]
            else:
                return index(src, a[2])
    if a[0] == 'app' and a[1] == 'setitem' and len(a[2]) == 3 and isinstance(a[2][2], Poly) and \
            (a[2][1] == ELLIPSIS or (isinstance(a[2][1], Slice) and a[2][1].lo in (NONE, None) and a[2][1].hi in (NONE, None)
                                     and a[2][1].step in (NONE, None))) and isinstance(key, (Poly, Slice)) and \
            a[2][2].single_atom() is not None and a[2][2].single_atom()[0] in ('idx', 'app', 'loop', 'sym', 'attr'):
        # x[:] = v (or x[...] = v) replaces every entry: reading entry k afterwards reads v[k] (v an array expression)
        return index(a[2][2], key)
    if a[0] == 'app' and a[1] == 'setitem' and len(a[2]) == 3 and a[2][1] == key and isinstance(a[2][2], Poly) \
            and isinstance(key, (Poly, Slice, Tup)) and not (_has_slice(key) and a[2][2].const_value() is not None):
        # read back what was just stored under the same key (a region filled with a constant stays the region of the array
        # it is: what is read is a view of that array, not the number)
        return a[2][2]
    if a[0] == 'idx' and isinstance(key, (Poly, Slice, Tup)) and \
            (a[1][0] in ('sym', 'attr', 'loop', 'iter') or isinstance(a[2], Slice)):
        k = compose_keys(a[2], key)
        if k is not None:
            return Poly.atom(('idx', a[1], k))
    return Poly.atom(('idx', a, key))


def _has_slice(key):
    return isinstance(key, Slice) or (isinstance(key, Tup) and any(isinstance(k, Slice) for k in key.items))


INTEGER_SYMS = set()      # names of symbols that denote integers / integer tuples (array sizes, extents, indices)


def is_integer_atom(a):
    """Atoms known to be integer valued: array sizes, results of floor/ceil/len,
    bounding-box / extent results, and symbols registered in INTEGER_SYMS."""
    k = a[0]
    if k == 'idx':
        b = a[1]
        if b[0] == 'attr' and b[2] == 'shape':
            return True
        if b[0] == 'app' and b[1].startswith('call:') and ('boundary' in b[1] or 'extent' in b[1] or b[1].endswith('_shape')):
            return True
        if b[0] == 'sym' and b[1] in INTEGER_SYMS and isinstance(a[2], Poly) and a[2].const_value() is not None:
            return True
        return False
    if k == 'attr':
        return a[2] in ('size', 'ndim')
    if k == 'app':
        return a[1] in ('floor', 'ceil', 'len', 'count_nonzero', 'round')
    if k == 'sym':
        return a[1] in INTEGER_SYMS
    if k == 'iter':
        return True
    return False


def _split_integer_part(x):
    """x = I + R with I an integer-valued polynomial (integer multiples of products of
    integer atoms) and R the remainder with coefficients reduced into [0, 1)."""
    ip, rest = {}, {}
    for m, c in x.terms:
        integral = all(is_integer_atom(a) and e.denominator == 1 and e > 0 for a, e in m)
        if integral:
            whole = math.floor(c)
            if whole:
                ip[m] = Fraction(whole)
            if c - whole:
                rest[m] = c - whole
        else:
            rest[m] = c
    return Poly.from_dict(ip), Poly.from_dict(rest)


def floor(x):
    x = as_poly(x)
    cv = x.const_value()
    if cv is not None:
        return Poly.const(math.floor(cv))
    # floor(I + r) = I + floor(r) for integer-valued I: canonical remainder
    ipart, rest = _split_integer_part(x)
    if rest.is_zero():
        return ipart
    cv = rest.const_value()
    if cv is not None:
        return ipart + math.floor(cv)
    return ipart + app('floor', rest)


def ceil(x):
    x = as_poly(x)
    cv = x.const_value()
    if cv is not None:
        return Poly.const(math.ceil(cv))
    ipart, rest = _split_integer_part(x)
    if rest.is_zero():
        return ipart
    cv = rest.const_value()
    if cv is not None:
        return ipart + math.ceil(cv)
    return ipart + app('ceil', rest)


def atom_subatoms(a):
    out = set()
    for x in a[1:]:
        out |= value_atoms(x)
    return out


def value_atoms(v):
    if isinstance(v, Poly):
        return v.atoms()
    if isinstance(v, Tup):
        s = set()
        for i in v.items:
            s |= value_atoms(i)
        return s
    if isinstance(v, Slice):
        return value_atoms(v.lo) | value_atoms(v.hi) | value_atoms(v.step)
    if isinstance(v, tuple):
        s = set()
        if v and isinstance(v[0], str) and v[0] in ('sym', 'attr', 'idx', 'app', 'poly', 'val',
                                                    'fresh', 'num', 'I', 'pi', 'iter', 'loop'):
            s.add(v)
        for x in v:
            s |= value_atoms(x)
        return s
    return set()


def subst_value(v, mapping):
    if isinstance(v, Poly):
        return v.subst(mapping)
    if isinstance(v, Tup):
        return Tup([subst_value(i, mapping) for i in v.items], v.kind)
    if isinstance(v, Slice):
        return Slice(subst_value(v.lo, mapping), subst_value(v.hi, mapping),
                     subst_value(v.step, mapping))
    if isinstance(v, tuple):
        if v and isinstance(v[0], str) and v in mapping:
            return mapping[v]
        if v and isinstance(v[0], str) and v[0] in ('attr', 'idx', 'app', 'poly', 'val'):
            r = subst_atom(v, mapping)
            sa = r.single_atom() if isinstance(r, Poly) else None
            return sa if sa is not None else ('val', r)
        return tuple(subst_value(x, mapping) for x in v)
    return v


def subst_atom(a, mapping):
    """Substitute inside an atom; returns a Poly (or other value)."""
    if a in mapping:
        return mapping[a]
    if len(a) == 1 or a[0] in ('sym', 'fresh', 'num', 'iter', 'loop'):
        return Poly.atom(a)
    new = tuple(subst_value(x, mapping) for x in a[1:])
    if a[0] == 'poly':
        q = new[0]
        return q if isinstance(q, Poly) else Poly.atom(a)
    if a[0] in ('attr', 'idx'):
        base = new[0]
        if isinstance(base, Poly):
            sa = base.single_atom()
            base = sa if sa is not None else ('val', base)
        if a[0] == 'idx' and isinstance(base, tuple) and base[0] == 'val' and isinstance(base[1], Tup):
            k = new[1]
            if isinstance(k, Poly) and k.const_value() is not None and -len(base[1]) <= int(k.const_value()) < len(base[1]):
                return base[1].items[int(k.const_value())]
        if a[0] == 'idx' and isinstance(new[0], Poly) and new[0] != Poly.atom(a[1]) and isinstance(new[1], (Poly, Slice, Tup)):
            return index(new[0], new[1])        # the base changed: let the keys compose again
        return Poly.atom((a[0], base) + new[1:])
    if a[0] == 'app':
        name, args = a[1], new[1]
        if name in COMMUTATIVE_APPS:
            args = tuple(sorted(args, key=vkey))
        if name == 'abs' and len(args) == 1 and isinstance(args[0], Poly):
            return app('abs', args[0])          # |x| = |-x|: one representative
        if name == 'floor' and isinstance(args[0], Poly):
            return floor(args[0])
        if name == 'ceil' and isinstance(args[0], Poly):
            return ceil(args[0])
        return Poly.atom(('app', name, args))
    return Poly.atom((a[0],) + new)


def iter_count(it):
    """Number of iterations of `for ... in it` as a term, when the construction of `it` shows it."""
    if isinstance(it, Tup):
        return Poly.const(len(it))
    a = it.single_atom() if isinstance(it, Poly) else None
    if a is None or a[0] != 'app':
        return None
    if a[1] in ('range', 'arange'):
        args = [x for x in a[2] if isinstance(x, Poly)]
        if len(args) == 1:
            return args[0]
        if len(args) == 2:
            return args[1] - args[0]
        return None
    if a[1] in ('enumerate', 'listcomp', 'genexp', 'reversed', 'sorted', 'list', 'tuple'):
        src = a[2][-1] if a[1] in ('listcomp', 'genexp') else a[2][0]
        return iter_count(src) if isinstance(src, (Poly, Tup)) else None
    if a[1] == 'zip':
        ns = [iter_count(x) for x in a[2] if isinstance(x, (Poly, Tup))]
        ns = [n for n in ns if n is not None]
        return ns[0] if len(ns) == 1 or (ns and all(n == ns[0] for n in ns)) else None
    return None


def strip_apps(v, names=('copy', 'cast', 'deepcopy', 'shallowcopy', 'm:copy')):
    """v with value-preserving wrappers (copies, casts) removed, for comparisons modulo copying."""
    for _ in range(8):
        mapping = {}
        for a in value_atoms(v):
            if a[0] == 'app' and a[1] in names and a[2] and isinstance(a[2][0], (Poly, Tup)):
                mapping[a] = a[2][0]
        if not mapping:
            return v
        v = subst_value(v, mapping)
    return v


FLOAT_KINDS = ("('builtin', 'float')", "('builtin', 'complex')", "'float'", "'float64'", "'complex'", "'complex128'",
               "('ext', 'numpy.float64')", "('ext', 'numpy.double')", "('ext', 'numpy.complex128')", "('ext', 'numpy.float_')",
               "('ext', 'numpy.longdouble')")


def unwiden(v):
    """v with conversions to (double) floating point removed: they keep every value, so a rule about values may look
    through them (rules about the *type* of an array must not use this)"""
    for _ in range(8):
        mapping = {}
        for a in value_atoms(v):
            if a[0] == 'app' and a[1] in ('cast', 'm:astype') and len(a[2]) > 1 and isinstance(a[2][0], (Poly, Tup)) \
                    and repr(a[2][1]) in FLOAT_KINDS:
                mapping[a] = a[2][0]
        if not mapping:
            return v
        v = subst_value(v, mapping)
    return v


def block_rows_view(v, array, blocks, rows):
    """v with `array.reshape(blocks, rows, -1)[k]` (array being a 2-D array of blocks*rows rows) rewritten as the row block
    `array[rows*k : rows*k + rows]` it is a view of."""
    for _ in range(4):
        mapping = {}
        for a in value_atoms(v):
            if a[0] != 'idx' or a[1][0] != 'app' or a[1][1] not in ('m:reshape', 'reshape') or not _scalar_index(a[2]):
                continue
            args = list(a[1][2])
            if len(args) == 2 and isinstance(args[1], Tup):
                args = [args[0]] + list(args[1].items)
            if len(args) == 4 and args[0] == array and args[1] == blocks and args[2] == Poly.const(rows) \
                    and args[3] in (Poly.const(-1), index(attr(array, 'shape'), Poly.const(1))):
                mapping[a] = index(array, Slice(a[2] * rows, a[2] * rows + rows))
        if not mapping:
            return v
        v = subst_value(v, mapping)
    return v


# --------------------------------------------------------------------- printing
def fmt_atom(a):
    k = a[0]
    if k == 'sym':
        return a[1]
    if k == 'I':
        return '1j'
    if k == 'pi':
        return 'pi'
    if k == 'num':
        return f'{a[1]}'
    if k == 'attr':
        return f'{fmt_atom(a[1])}.{a[2]}'
    if k == 'idx':
        return f'{fmt_atom(a[1])}[{fmt(a[2])}]'
    if k == 'val':
        return f'({fmt(a[1])})'
    if k == 'poly':
        return f'({fmt(a[1])})'
    if k == 'app':
        return f'{a[1]}({", ".join(fmt(x) for x in a[2])})'
    if k in ('fresh', 'iter', 'loop'):
        return f'{k}<{a[1]}>'
    return repr(a)


def fmt(v):
    if isinstance(v, Poly):
        if not v.terms:
            return '0'
        parts = []
        for m, c in v.terms:
            fs = []
            for a, e in m:
                s = fmt_atom(a)
                if e != 1:
                    s += f'**{e}' if e.denominator == 1 and e > 0 else f'**({e})'
                fs.append(s)
            if not fs:
                parts.append(str(c))
            elif c == 1:
                parts.append('*'.join(fs))
            elif c == -1:
                parts.append('-' + '*'.join(fs))
            else:
                parts.append(f'{c}*' + '*'.join(fs))
        s = ' + '.join(parts)
        return s.replace('+ -', '- ')
    if isinstance(v, (Tup, Slice, Const)):
        return repr(v)
    if isinstance(v, tuple):
        if v and isinstance(v[0], str):
            try:
                return fmt_atom(v)
            except Exception:
                pass
        return '(' + ', '.join(fmt(x) for x in v) + ')'
    return repr(v)
