"""Linear integer inequalities over the atoms of normal-form terms (a small polyhedral domain).

A constraint is  sum(coef[v] * v) + const <= 0  with rational coefficients; the variables are atoms of the term
algebra (symbols, attributes, indexed shapes, floor-halves, ...) that the caller declares integer valued.  `entails`
decides by Fourier-Motzkin elimination over the rationals whether a set of constraints implies another one (sound for
integers: what holds for all rationals holds for all integers).  `witness` looks for a small integer point that satisfies
the constraints and violates the goal, so that a reported violation always comes with concrete numbers; when neither a
proof nor a witness is found the question stays open.  No program code is run: only terms are evaluated."""
import itertools
from fractions import Fraction

from . import nf
from .nf import Poly, Const

MAX_CONSTRAINTS = 2000


class NotLinear(Exception):
    pass


class Lin:
    """sum(coefs[v] * v) + const"""
    __slots__ = ('coefs', 'const')

    def __init__(self, coefs=None, const=0):
        self.coefs = {v: Fraction(c) for v, c in (coefs or {}).items() if c != 0}
        self.const = Fraction(const)

    def __add__(self, o):
        c = dict(self.coefs)
        for v, k in o.coefs.items():
            c[v] = c.get(v, 0) + k
        return Lin(c, self.const + o.const)

    def scale(self, k):
        return Lin({v: c * k for v, c in self.coefs.items()}, self.const * k)

    def __sub__(self, o):
        return self + o.scale(-1)

    def __repr__(self):
        from .rules import fmt
        parts = [f'{c}*{fmt(Poly.atom(v))}' for v, c in sorted(self.coefs.items(), key=repr)]
        return ' + '.join(parts + [str(self.const)])


def linearise(p, opaque_products=True):
    """Poly of degree <= 1 in its atoms -> Lin"""
    if isinstance(p, Const) and isinstance(p.value, (int, bool)):
        return Lin({}, int(p.value))
    if not isinstance(p, Poly):
        raise NotLinear(type(p).__name__)
    coefs, const = {}, Fraction(0)
    for m, k in p.terms:
        if not m:
            const += Fraction(k)
        elif len(m) == 1 and m[0][1] == 1:
            coefs[m[0][0]] = coefs.get(m[0][0], 0) + Fraction(k)
        elif opaque_products:
            # a product of unknowns (shape[0]*oversample) is one unknown of its own: sound for entailment, which then
            # simply does not use what the factors say about the product
            coefs[('mono', m)] = coefs.get(('mono', m), 0) + Fraction(k)
        else:
            raise NotLinear('product of unknowns')
    return Lin(coefs, const)


def _int_coefs(l):
    return all(c.denominator == 1 for c in l.coefs.values()) and l.const.denominator == 1


def le(a, b):
    """a <= b"""
    return a - b


def lt(a, b):
    """a < b over the integers: a - b + 1 <= 0 (coefficients must be integral)"""
    d = a - b
    if not _int_coefs(d):
        raise NotLinear('strict comparison of fractional terms')
    return d + Lin({}, 1)


def from_condition(c, pol):
    """constraints (each `lin <= 0`) equivalent to the comparison atom c having truth value pol; alternatives for !=.
    -> list of alternatives, each a list of Lin"""
    a = c.single_atom() if isinstance(c, Poly) else None
    if a is None or a[0] != 'app' or a[1] not in ('lt', 'le', 'eq', 'ne') or len(a[2]) != 2:
        raise NotLinear('not a comparison')
    x, y = linearise(a[2][0]), linearise(a[2][1])
    name = a[1]
    if not pol:
        name = {'lt': 'ge', 'le': 'gt', 'eq': 'ne', 'ne': 'eq'}[name]
    if name == 'lt':
        return [[lt(x, y)]]
    if name == 'le':
        return [[le(x, y)]]
    if name == 'gt':
        return [[lt(y, x)]]
    if name == 'ge':
        return [[le(y, x)]]
    if name == 'eq':
        return [[le(x, y), le(y, x)]]
    return [[lt(x, y)], [lt(y, x)]]


def literal_constraints(c, pol):
    """a path-condition literal as constraints: a comparison, or the truthiness of an integer term (non-zero / zero);
    only conjunctive literals (no `!=`) -> list of Lin, else NotLinear"""
    a = c.single_atom() if isinstance(c, Poly) else None
    if a is not None and a[0] == 'app' and a[1] in ('lt', 'le', 'eq', 'ne'):
        alts = from_condition(c, pol)
    elif isinstance(c, Poly):
        x = linearise(c)
        if pol:
            raise NotLinear('non-zero test is a disjunction')
        alts = [[le(x, Lin()), le(Lin(), x)]]
    else:
        raise NotLinear('not an integer term')
    if len(alts) != 1:
        raise NotLinear('disjunction')
    return alts[0]


def _normalise(cons):
    """one constraint per direction (the tightest), coefficients scaled so that the first one is +-1"""
    best = {}
    for l in cons:
        if not l.coefs:
            if l.const > 0:
                return None         # 0 <= -const < 0: infeasible outright
            continue
        vs = sorted(l.coefs, key=repr)
        k = abs(l.coefs[vs[0]])
        key = tuple((repr(v), l.coefs[v] / k) for v in vs)
        c = l.const / k
        if key not in best or c > best[key][1]:
            best[key] = (Lin({v: l.coefs[v] / k for v in vs}, c), c)
    return [x for x, _ in best.values()]


def _eliminate(cons, v):
    pos, neg, rest = [], [], []
    for l in cons:
        c = l.coefs.get(v, 0)
        (pos if c > 0 else neg if c < 0 else rest).append(l)
    out = list(rest)
    for p in pos:
        for n in neg:
            cp, cn = p.coefs[v], -n.coefs[v]
            out.append(p.scale(cn) + n.scale(cp))
    out = _normalise(out)
    if out is not None and len(out) > MAX_CONSTRAINTS:
        raise NotLinear('too many constraints')
    return out


def feasible(cons):
    """is there a rational point with every lin <= 0 ?  (Fourier-Motzkin, cheapest variable first)"""
    cons = _normalise(list(cons))
    if cons is None:
        return False
    while True:
        variables = {v for l in cons for v in l.coefs}
        if not variables:
            break
        def cost(v):
            p = sum(1 for l in cons if l.coefs.get(v, 0) > 0)
            n = sum(1 for l in cons if l.coefs.get(v, 0) < 0)
            return p * n - p - n
        v = min(sorted(variables, key=repr), key=cost)
        cons = _eliminate(cons, v)
        if cons is None:
            return False
    return all(l.const <= 0 for l in cons)


def entails(cons, goal):
    """cons |= goal (goal: lin <= 0), decided over the rationals; integer tightening of the negation when possible"""
    neg = goal.scale(-1)            # -(g) < 0, i.e. g > 0
    if _int_coefs(neg):
        neg = neg + Lin({}, 1)      # g >= 1
        return not feasible(list(cons) + [neg])
    # fractional coefficients: g > 0 relaxed to g >= 0 would be unsound for entailment, so ask for a tiny margin
    return not feasible(list(cons) + [neg + Lin({}, Fraction(1, 10 ** 9))])


def entails_with_axioms(cons, goal, atoms=()):
    """cons |= goal under the floor-half and min/max axioms of the atoms that occur"""
    neg = goal.scale(-1)
    if _int_coefs(neg):
        neg = neg + Lin({}, 1)
    else:
        neg = neg + Lin({}, Fraction(1, 10 ** 9))
    return not satisfiable(list(cons) + [neg], atoms)


def floor_half_axioms(atoms):
    """h = floor(n/2) for an integer n:  2h <= n <= 2h + 1"""
    out = []
    for a in atoms:
        if a[0] == 'app' and a[1] in ('floor', 'floordiv') and a[2] and isinstance(a[2][0], Poly):
            inner = a[2][0] if a[1] == 'floor' else None
            if a[1] == 'floordiv' and len(a[2]) == 2 and isinstance(a[2][1], Poly) and a[2][1].const_value() == 2:
                inner = a[2][0] / 2
            if inner is None:
                continue
            try:
                n = linearise(inner * 2)
            except NotLinear:
                continue
            h = Lin({a: 1})
            out += [le(h.scale(2), n), le(n, h.scale(2) + Lin({}, 1))]
    return out


def minmax_axioms(atoms):
    """m = min(x, y, ...) / max(...): m <= every argument (>= for max) and m equals one of them -> list of alternatives,
    each a list of constraints (one alternative per choice of the attained argument, for every min/max atom)"""
    alts = [[]]
    for a in atoms:
        if a[0] == 'app' and a[1] in ('min', 'max', 'minimum', 'maximum') and len(a[2]) >= 2 and all(isinstance(x, Poly) for x in a[2]):
            m = Lin({a: 1})
            args = [linearise(x) for x in a[2]]
            lo = a[1] in ('min', 'minimum')
            base = [le(m, x) if lo else le(x, m) for x in args]
            choices = [base + ([le(x, m)] if lo else [le(m, x)]) for x in args]
            alts = [pre + c for pre in alts for c in choices]
    return alts


def satisfiable(cons, atoms=()):
    """feasible under the axioms of the floor-halves and min/max atoms that occur"""
    atoms = set(atoms)
    for l in cons:
        atoms |= set(l.coefs)
    base = floor_half_axioms(atoms)
    return any(feasible(list(cons) + base + extra) for extra in minmax_axioms(atoms))


def evaluate(p, env):
    """value of a Poly under an integer assignment of its free atoms (floor-halves are computed)"""
    total = Fraction(0)
    for m, k in p.terms:
        t = Fraction(k)
        for a, e in m:
            t *= Fraction(_atom_value(a, env)) ** e
        total += t
    return total


def _atom_value(a, env):
    if a in env:
        return env[a]
    if a[0] == 'app' and a[1] == 'floor' and a[2] and isinstance(a[2][0], Poly):
        v = evaluate(a[2][0], env)
        return v.numerator // v.denominator
    if a[0] == 'app' and a[1] == 'floordiv' and len(a[2]) == 2:
        x, y = evaluate(a[2][0], env), evaluate(a[2][1], env)
        q = x / y
        return q.numerator // q.denominator
    if a[0] == 'app' and a[1] in ('min', 'max', 'minimum', 'maximum') and all(isinstance(x, Poly) for x in a[2]):
        vals = [evaluate(x, env) for x in a[2]]
        return min(vals) if a[1] in ('min', 'minimum') else max(vals)
    raise NotLinear(f'no value for {a!r}')


def free_atoms(polys):
    """atoms that need a value: everything except floors of evaluable terms"""
    out = set()

    def walk(p):
        for m, _ in p.terms:
            for a, _ in m:
                if a[0] == 'app' and a[1] in ('floor', 'floordiv', 'min', 'max', 'minimum', 'maximum'):
                    for x in a[2]:
                        if isinstance(x, Poly):
                            walk(x)
                elif a[0] == 'app':
                    raise NotLinear(f'{a[1]}(...) has no integer model')
                else:
                    out.add(a)
    for p in polys:
        walk(p)
    return sorted(out, key=repr)


def witness(conds, goal_poly, goal_kind, ranges, limit=200000):
    """an integer assignment (within `ranges`: atom -> iterable, default -12..12) under which every (comparison, pol) of
    conds holds and the goal `goal_poly >= 0` (goal_kind 'ge0') / `goal_poly <= 0` ('le0') fails -> env or None"""
    polys = [goal_poly]
    cmp_ = []
    for c, pol in conds:
        a = c.single_atom()
        polys += [a[2][0], a[2][1]]
        cmp_.append((a[1], a[2][0], a[2][1], pol))
    atoms = free_atoms(polys)
    doms = [list(ranges.get(a, range(-12, 13))) for a in atoms]
    n = 1
    for d in doms:
        n *= len(d)
    if n > limit:
        return None
    ops = {'lt': lambda x, y: x < y, 'le': lambda x, y: x <= y, 'eq': lambda x, y: x == y, 'ne': lambda x, y: x != y}
    for point in itertools.product(*doms):
        env = dict(zip(atoms, point))
        if all(ops[name](evaluate(x, env), evaluate(y, env)) == bool(pol) for name, x, y, pol in cmp_):
            g = evaluate(goal_poly, env)
            if (goal_kind == 'ge0' and g < 0) or (goal_kind == 'le0' and g > 0):
                return env
    return None


def holds(c, env):
    """truth of a boolean term (and / or / not over comparisons of integer terms) under an integer assignment"""
    if isinstance(c, Const):
        return bool(c.value)
    a = c.single_atom() if isinstance(c, Poly) else None
    if a is None:
        return evaluate(c, env) != 0
    if a[0] == 'app' and a[1] in ('and', 'or'):
        vals = [holds(x, env) for x in a[2]]
        return all(vals) if a[1] == 'and' else any(vals)
    if a[0] == 'app' and a[1] == 'not':
        return not holds(a[2][0], env)
    if a[0] == 'app' and a[1] in ('lt', 'le', 'eq', 'ne') and len(a[2]) == 2:
        x, y = evaluate(a[2][0], env), evaluate(a[2][1], env)
        return {'lt': x < y, 'le': x <= y, 'eq': x == y, 'ne': x != y}[a[1]]
    return evaluate(c, env) != 0


def disjuncts(c, pol):
    """a path condition as a list of alternatives, each a list of (comparison, polarity) literals (DNF of and/or/not)"""
    a = c.single_atom() if isinstance(c, Poly) else None
    if a is not None and a[0] == 'app' and a[1] == 'not':
        return disjuncts(a[2][0], not pol)
    if a is not None and a[0] == 'app' and a[1] in ('and', 'or'):
        conj = (a[1] == 'and') == bool(pol)
        parts = [disjuncts(x, pol) for x in a[2]]
        if conj:
            out = [[]]
            for alts in parts:
                out = [x + y for x in out for y in alts]
            return out
        return [alt for alts in parts for alt in alts]
    return [[(c, pol)]]


def conj_constraints(lits):
    """constraints of a conjunction of comparison literals; `!=` splits -> list of alternatives (each a list of Lin)"""
    alts = [[]]
    for c, pol in lits:
        alts = [x + y for x in alts for y in from_condition(c, pol)]
    return alts
