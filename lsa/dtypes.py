"""A small type-kind inference over normal-form terms: which of bool / int / float /
complex the elements of an array value can be, given what the path conditions
say about the parameters.  Sound upwards: an unknown construct yields ANY."""
from . import nf
from .nf import Poly, Tup, Const

ORDER = ('bool', 'int', 'float', 'complex')
ANY = frozenset(ORDER)
FLOATING = frozenset(('float', 'complex'))

SAME_AS_FIRST = {'zeros_like', 'ones_like', 'empty_like', 'full_like', 'copy', 'm:copy', 'deepcopy', 'setitem', 'asarray',
                 'scipy.ndimage.map_coordinates', 'T', 'm:ravel', 'm:reshape', 'squeeze', 'fft.fftshift', 'fft.ifftshift',
                 'negative', 'abs_same', 'clip', 'm:squeeze', 'm:transpose', 'transpose', 'broadcast_to', 'tile', 'roll', 'flip'}
FLOAT_DEFAULT = {'zeros', 'ones', 'empty', 'linspace', 'full_float'}


def _kind_of_type(t):
    r = repr(t)
    if 'complex' in r:
        return frozenset(('complex',))
    if 'float' in r or 'double' in r:
        return frozenset(('float',))
    if 'bool' in r:
        return frozenset(('bool',))
    if 'int' in r:
        return frozenset(('int',))
    return ANY


def _join(a, b):
    """kinds of a binary arithmetic result"""
    out = set()
    for x in a:
        for y in b:
            out.add(ORDER[max(ORDER.index(x), ORDER.index(y))])
    return frozenset(out)


def constraints(conds):
    """{param atom: allowed kinds} read off the path conditions (issubdtype / iscomplexobj tests)"""
    out = {}
    for c, pol, _ in conds:
        a = c.single_atom() if isinstance(c, Poly) else None
        if a is None or a[0] != 'app':
            continue
        if a[1] in ('numpy.issubdtype', 'issubdtype') and len(a[2]) == 2:
            d = a[2][0].single_atom() if isinstance(a[2][0], Poly) else None
            if d is not None and d[0] == 'attr' and d[2] == 'dtype':
                r = repr(a[2][1])
                ks = FLOATING if 'inexact' in r else frozenset(('float',)) if 'floating' in r else \
                    frozenset(('int',)) if 'integer' in r else frozenset(('complex',)) if 'complexfloating' in r else None
                if ks is not None:
                    cur = out.get(d[1], ANY)
                    out[d[1]] = cur & ks if pol else cur - ks
        if a[1] in ('iscomplexobj', 'numpy.iscomplexobj') and a[2]:
            b = a[2][0].single_atom() if isinstance(a[2][0], Poly) else None
            if b is not None and b[0] in ('sym', 'attr'):
                cur = out.get(b, ANY)
                out[b] = cur & frozenset(('complex',)) if pol else cur - frozenset(('complex',))
    return out


def kinds(v, known=None, depth=0):
    """possible element kinds of the value v"""
    known = known or {}
    if depth > 12:
        return ANY
    if isinstance(v, Const):
        if isinstance(v.value, bool):
            return frozenset(('bool',))
        return ANY
    if isinstance(v, Tup):
        out = frozenset()
        for i in v.items:
            out |= kinds(i, known, depth + 1)
        return out or ANY
    if not isinstance(v, Poly):
        return ANY
    cv = v.const_value()
    if cv is not None:
        return frozenset(('int',)) if getattr(cv, 'denominator', 1) == 1 else frozenset(('float',))
    a = v.single_atom()
    if a is None:
        out = None
        div = False
        for m, c in v.terms:
            k = frozenset(('int',)) if getattr(c, 'denominator', 1) == 1 else frozenset(('float',))
            for at, e in m:
                ka = kinds(Poly.atom(at), known, depth + 1)
                if e < 0 or getattr(e, 'denominator', 1) != 1:
                    div = True
                k = _join(k, ka)
            out = k if out is None else _join(out, k)
        if div:
            out = frozenset(x if x in FLOATING else 'float' for x in out)
        return out or ANY
    if a in known:
        return known[a]
    if a[0] == 'I':
        return frozenset(('complex',))
    if a[0] == 'pi':
        return frozenset(('float',))
    if a[0] != 'app':
        return ANY
    name, args = a[1], a[2]
    if name in ('cast', 'm:astype') and len(args) > 1:
        return _kind_of_type(args[1])
    kw = {}
    for x in args:
        if isinstance(x, Tup):
            for pr in x.items:
                if isinstance(pr, Tup) and len(pr) == 2 and isinstance(pr.items[0], Const):
                    kw[pr.items[0].value] = pr.items[1]
    if 'dtype' in kw:
        return _kind_of_type(kw['dtype'])
    if 'output' in kw:
        return ANY
    if name in ('real', 'imag', 'abs', 'absolute', 'angle') and args:
        k = kinds(args[0], known, depth + 1)
        return frozenset('float' if x == 'complex' else x for x in k)
    if name in SAME_AS_FIRST and args and isinstance(args[0], (Poly, Tup)):
        return kinds(args[0], known, depth + 1)
    if name in FLOAT_DEFAULT:
        return frozenset(('float',))
    if name in ('lt', 'le', 'eq', 'ne', 'bitand', 'bitor', 'isclose', 'isfinite', 'isnan', 'logical_and', 'logical_or'):
        return frozenset(('bool',))
    if name in ('exp', 'sqrt', 'sin', 'cos', 'log', 'arctan2', 'hypot', 'mean', 'floor', 'ceil', 'rint'):
        k = kinds(args[0], known, depth + 1) if args else ANY
        return frozenset(x if x in FLOATING else 'float' for x in k)
    if name in ('sum', 'amax', 'amin', 'prod') and args:
        k = kinds(args[0], known, depth + 1)
        return frozenset('int' if x == 'bool' and name in ('sum', 'prod') else x for x in k)
    return ANY
