"""lsa - lentil static analysis.

Every verdict is computed from the source text of $LENTIL_REPO (default /repo)
with the standard-library ``ast`` module.  Nothing in this package imports,
executes or traces lentil, numpy or scipy.
"""
