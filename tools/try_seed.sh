#!/bin/bash
# usage: try_seed.sh /path/to/dir-with-patch.diff C05 [C09 ...]  - apply a patch to a scratch copy and run checks on it
set -e
d=$1; shift
tmp=$(mktemp -d /tmp/lsa-try-XXXX)
mkdir -p $tmp/docs/user
cp -r /repo/lentil $tmp/lentil
cp -r /repo/docs/user/fundamentals $tmp/docs/user/
(cd $tmp && git apply $d/patch.diff)
for p in "$@"; do
  LENTIL_REPO=$tmp LSA_EVIDENCE_DIR=$tmp/_ev LSA_NO_LIVENESS=1 /venv/bin/python -m lsa $p --tier quick 2>&1 | grep -v "^  ok\|^ok " | tail -${TAILN:-25}
done
export PYTHONPATH=/verif
if [ -n "$DUMP" ]; then LENTIL_REPO=$tmp /venv/bin/python $DUMP; fi
if [ -n "$KEEP" ]; then echo "kept $tmp"; else rm -rf $tmp; fi
