#!/venv/bin/python
"""Evaluate every seeded change found under a root (default /tmp/wt/*/_seeded/*)."""
import concurrent.futures as cf
import glob
import json
import os
import sys
sys.path.insert(0, os.path.dirname(os.path.abspath(__file__)))
from eval_seeded import evaluate   # noqa: E402

pat = sys.argv[1] if len(sys.argv) > 1 else '/tmp/wt/*/_seeded/[0-9]*'
dirs = sorted(d for d in glob.glob(pat) if os.path.exists(os.path.join(d, 'patch.diff'))
              and os.path.exists(os.path.join(d, 'demo.py')) and
              (os.path.exists(os.path.join(d, 'notes.md')) or os.path.exists(os.path.join(d, 'meta.json'))))
out = {}
with cf.ThreadPoolExecutor(max_workers=6) as ex:
    for r in ex.map(evaluate, dirs):
        out[r['dir']] = r
        ok = r.get('applies') and r.get('demo_clean_rc') == 0 and r.get('demo_modified_rc') not in (0, None) and r.get('suite_rc') == 0
        print(('VALID  ' if ok else 'INVALID'), r['dir'], 'fired:', sorted(r.get('fired', {})), 'errors:', sorted(r.get('errors', {})),
              '' if ok else {k: r.get(k) for k in ('applies', 'demo_clean_rc', 'demo_modified_rc', 'suite_rc', 'suite_tail')})
dst = sys.argv[2] if len(sys.argv) > 2 else '/tmp/scratch/seeded_results.json'
prev = json.load(open(dst)) if os.path.exists(dst) and len(sys.argv) > 2 else {}
prev.update(out)
json.dump(prev, open(dst, 'w'), indent=1)
