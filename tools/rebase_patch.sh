#!/bin/bash
# rebase_patch.sh <dir-with-patch.diff> : re-create the patch against /repo's HEAD after /repo moved (3-way apply)
d=$1
wt=/tmp/scratch/rb
rm -rf $wt; git -C /repo worktree prune; git -C /repo worktree add -q -f $wt HEAD
cd $wt
if git apply --3way $d/patch.diff >/tmp/scratch/rb.log 2>&1 && ! grep -rq "^<<<<<<<" lentil; then
  git diff HEAD -- lentil > /tmp/scratch/rb.new.diff
  if PYTHONPATH=$wt /venv/bin/python -m pytest -q -x -p no:cacheprovider tests >/tmp/scratch/rb.test.log 2>&1; then
     cp /tmp/scratch/rb.new.diff $d/patch.diff; echo "REBASED $d"
  else echo "TESTS-FAIL $d"; tail -3 /tmp/scratch/rb.test.log; fi
  cd /; git -C /repo worktree remove --force $wt
else
  echo "CONFLICT $d (worktree kept at $wt)"; grep -n "^<<<<<<<\|^>>>>>>>" -r lentil | head
fi
