#!/venv/bin/python
"""Re-run every check against every archived seeded change (/verif/seeded/*) and
refresh meta.json + seeded/SUMMARY.md."""
import concurrent.futures as cf
import glob
import json
import os
import sys
sys.path.insert(0, os.path.dirname(os.path.abspath(__file__)))
from eval_seeded import evaluate   # noqa: E402

dirs = sorted(d for d in glob.glob('/verif/seeded/*') if os.path.exists(os.path.join(d, 'meta.json')))
if len(sys.argv) > 1:
    dirs = [d for d in dirs if any(a in d for a in sys.argv[1:])]
rows = []
with cf.ThreadPoolExecutor(max_workers=6) as ex:
    for r in ex.map(evaluate, dirs):
        d = r['dir']
        meta = json.load(open(os.path.join(d, 'meta.json')))
        ok = r.get('applies') and r.get('demo_clean_rc') == 0 and r.get('demo_modified_rc') not in (0, None) and r.get('suite_rc') == 0
        meta['confirmed'].update({'patch_applies': bool(r.get('applies')), 'demo_on_clean_tree_rc': r.get('demo_clean_rc'),
                                  'demo_on_patched_tree_rc': r.get('demo_modified_rc'),
                                  'repository_suite_on_patched_tree': r.get('suite_tail', ''), 'still_confirmed': bool(ok)})
        meta['checks_that_report_it'] = {p: [l.split(' @ ')[0].replace('FINDING ', '') for l in f[:3]]
                                         for p, f in sorted(r.get('fired', {}).items())}
        meta['check_errors'] = r.get('errors', {})
        meta['detected'] = bool(r.get('fired'))
        meta['detected_by_own_property_check'] = meta['breaks_property'] in r.get('fired', {})
        json.dump(meta, open(os.path.join(d, 'meta.json'), 'w'), indent=1)
        rows.append(meta)
        print(meta['id'], 'confirmed' if ok else 'NOT-CONFIRMED', sorted(r.get('fired', {})) or 'MISSED', sorted(r.get('errors', {})))
if len(sys.argv) == 1:
    with open('/verif/seeded/SUMMARY.md', 'w') as fh:
        fh.write('| seeded change | breaks | reported by (clauses) |\n|---|---|---|\n')
        for m in sorted(rows, key=lambda m: m['id']):
            cl = '; '.join(f'{p}: ' + ', '.join(sorted({x.split(' ')[0] for x in v})) for p, v in m['checks_that_report_it'].items())
            fh.write(f"| {m['id']} | {m['breaks_property']} | {cl or '**not detected**'} |\n")
    print(sum(1 for m in rows if m['detected']), 'of', len(rows), 'detected;',
          sum(1 for m in rows if m['detected_by_own_property_check']), 'by the check of the property they break')
