#!/venv/bin/python
"""Run the repository's own test suite on every 'fire' variant (outside the
registered checks): a realistic breakage keeps the suite green.  Writes
variants/suite_results.json: id -> passed / failed count."""
import concurrent.futures as cf
import json
import os
import shutil
import subprocess
import sys
import tempfile

VERIF = os.path.dirname(os.path.dirname(os.path.abspath(__file__)))
sys.path.insert(0, VERIF)
from lsa.liveness import load_catalog, apply_variant   # noqa: E402


def run(v):
    tmp = tempfile.mkdtemp(prefix='lsa-suite-')
    try:
        for d in ('lentil', 'tests', 'docs/user/fundamentals'):
            shutil.copytree(os.path.join('/repo', d), os.path.join(tmp, d), ignore=shutil.ignore_patterns('__pycache__'))
        for fn in ('setup.py', 'setup.cfg'):
            shutil.copy(os.path.join('/repo', fn), tmp)
        if not apply_variant(tmp, v):
            return v['id'], 'skipped'
        env = dict(os.environ, PYTHONPATH=tmp)
        r = subprocess.run(['/venv/bin/python', '-m', 'pytest', '-q', '-x', '-p', 'no:cacheprovider', '--timeout=600', 'tests'],
                           cwd=tmp, env=env, capture_output=True, text=True)
        tail = r.stdout.strip().splitlines()[-1] if r.stdout.strip() else r.stderr[-200:]
        return v['id'], ('pass' if r.returncode == 0 else 'FAIL: ' + tail)
    finally:
        shutil.rmtree(tmp, ignore_errors=True)


def main():
    cat = [v for v in load_catalog() if v['expect'] == 'fire']
    out = {}
    with cf.ThreadPoolExecutor(max_workers=14) as ex:
        for vid, res in ex.map(run, cat):
            out[vid] = res
            if res != 'pass':
                print(vid, res)
    with open(os.path.join(VERIF, 'variants', 'suite_results.json'), 'w') as fh:
        json.dump(out, fh, indent=1, sort_keys=True)
    print(sum(1 for r in out.values() if r == 'pass'), 'of', len(out), 'fire variants keep the repository suite green')


if __name__ == '__main__':
    main()
