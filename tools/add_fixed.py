#!/venv/bin/python
import json, sys, subprocess
prop, what = sys.argv[1], sys.argv[2]
commit = subprocess.check_output(['git','-C','/repo','log','-1','--format=%h']).decode().strip()
k = json.load(open('/verif/known_findings.json'))
k['fixed'].append(f'fixed: property={prop} {commit} {what}')
json.dump(k, open('/verif/known_findings.json','w'), indent=1)
print(k['fixed'][-1])
