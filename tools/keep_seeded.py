#!/venv/bin/python
"""Copy confirmed seeded changes into /verif/seeded/<id>/ with meta.json."""
import json, os, shutil, sys, re
res = json.load(open(sys.argv[1] if len(sys.argv) > 1 else '/tmp/scratch/seeded_results.json'))
ROUND = sys.argv[2] if len(sys.argv) > 2 else ''
out_root = '/verif/seeded'
os.makedirs(out_root, exist_ok=True)
for d, v in sorted(res.items()):
    ok = v.get('applies') and v.get('demo_clean_rc') == 0 and v.get('demo_modified_rc') not in (0, None) and v.get('suite_rc') == 0
    if not ok:
        print('skip (not confirmed)', d, v.get('suite_tail'))
        continue
    m = re.match(r'/tmp/wt\d*/(C\d\d)/_seeded/(\d+)', d)
    if not m:
        continue
    prop, k = m.group(1), m.group(2)
    sid = f'{prop}-agent{ROUND}-{k}'
    dst = os.path.join(out_root, sid)
    os.makedirs(dst, exist_ok=True)
    for fn in ('patch.diff', 'demo.py', 'notes.md'):
        if os.path.exists(os.path.join(d, fn)):
            shutil.copy(os.path.join(d, fn), dst)
    notes = open(os.path.join(d, 'notes.md')).read() if os.path.exists(os.path.join(d, 'notes.md')) else ''
    meta = {
        'id': sid,
        'breaks_property': prop,
        'origin': 'independent sub-agent given only the property text and a scratch worktree of /repo (nothing from /verif)',
        'needs_to_manifest': notes.strip().split('\n\n')[0][:1200],
        'confirmed': {
            'how': 'tools/eval_seeded.py on two scratch exports of /repo HEAD (clean / patched), removed afterwards',
            'patch_applies': True,
            'demo_on_clean_tree_rc': v['demo_clean_rc'],
            'demo_on_patched_tree_rc': v['demo_modified_rc'],
            'demo_failure': v.get('demo_modified_tail', ''),
            'repository_suite_on_patched_tree': v.get('suite_tail', ''),
        },
        'checks_that_report_it': {p: [l.split(' @ ')[0].replace('FINDING ', '') for l in f[:3]] for p, f in sorted(v.get('fired', {}).items())},
        'detected': bool(v.get('fired')),
        'detected_by_own_property_check': prop in v.get('fired', {}),
    }
    json.dump(meta, open(os.path.join(dst, 'meta.json'), 'w'), indent=1)
    print(sid, 'detected by', sorted(v.get('fired', {})) or 'NOTHING')
