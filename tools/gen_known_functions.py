#!/venv/bin/python
"""Regenerate specs/known_functions.json from the tree the rules were written against:
the set of function keys, and for every private function its parameters and the
functions that call it (used to recognise a later *rename* of a private helper)."""
import json
import os
import sys
sys.path.insert(0, os.path.dirname(os.path.dirname(os.path.abspath(__file__))))
from lsa.model import Repo, callees_of, fingerprint, call_site_texts   # noqa: E402

repo = Repo()
funcs = sorted({f.key + ('#setter' if f.is_setter else '') for f in repo.all_functions()})
private = {}
calls = {f.key: callees_of(repo, f) for f in repo.all_functions() if not f.is_setter}
for f in repo.all_functions():
    if f.is_setter or not f.name.startswith('_') or f.name.startswith('__'):
        continue
    private[f.key] = {'params': [p[0] for p in f.params()],
                      'callers': sorted(k for k, cs in calls.items() if f.key in cs and k != f.key),
                      'fp': fingerprint(f)}
    sites = {}
    for k, cs in calls.items():
        if f.key in cs and k != f.key:
            t = call_site_texts(repo.func(k), f.name, private[f.key]['params'])
            if t:
                sites[k] = t
    private[f.key]['sites'] = sites
path = os.path.join(os.path.dirname(os.path.dirname(os.path.abspath(__file__))), 'specs', 'known_functions.json')
old = json.load(open(path))
old['functions'] = funcs
old['private'] = private
import ast   # noqa: E402


def _signature(f):
    a = f.node.args
    pos = a.posonlyargs + a.args
    defaults = [None] * (len(pos) - len(a.defaults)) + list(a.defaults)
    out = [[p.arg, 'pos', ast.unparse(d) if d is not None else None] for p, d in zip(pos, defaults)]
    if a.vararg:
        out.append(['*' + a.vararg.arg, 'var', None])
    out += [[p.arg, 'kw', ast.unparse(d) if d is not None else None] for p, d in zip(a.kwonlyargs, a.kw_defaults)]
    if a.kwarg:
        out.append(['**' + a.kwarg.arg, 'varkw', None])
    return out


# the calling convention of every public function and method: positional order, names and defaults are part of the API
old['signatures'] = {f.key: _signature(f) for f in repo.all_functions()
                     if not f.is_setter and not f.is_property and (not f.name.startswith('_') or f.name == '__init__')
                     and (f.cls is None or not f.cls.name.startswith('_'))}
from lsa.resilient import module_digests   # noqa: E402
old['digests'] = module_digests(repo)
json.dump(old, open(path, 'w'), indent=1)
print(len(funcs), 'functions;', len(private), 'private')
