import json, glob, sys, os
rnd = sys.argv[1]
rows=[]
for d in sorted(glob.glob(f'/verif/seeded/C??-agent{rnd}-?')):
    m=json.load(open(d+'/meta.json'))
    notes=open(d+'/notes.md').read().strip().split('\n')
    title=notes[0].lstrip('# ').strip()[:110].replace('|','/')
    cl='; '.join(f'{p}: ' + ', '.join(sorted({x.split(' ')[0] for x in v})) for p, v in m['checks_that_report_it'].items())
    rows.append(f"| {m['id']} | {title} | {cl} |")
print('| change | what it does | reported by |\n|---|---|---|')
print('\n'.join(rows))
