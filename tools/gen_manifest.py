#!/venv/bin/python
"""Regenerate /verif/MANIFEST.json from the rule modules that exist."""
import json
import os
import sys

VERIF = os.path.dirname(os.path.dirname(os.path.abspath(__file__)))
sys.path.insert(0, VERIF)

TECH = {
    'C01': 'algebraic normal forms of dft2/idft2 under flag configurations (gain accounting, kernel pairing), out= finality and cache effect rules',
    'C02': 'normal-form identities and axis-swap equivariance of extent arithmetic, unit/axis typing of alpha and shift, call contracts, dependence',
    'C03': 'must-pass-through (coherent reduce before modulus), guaranteed-factor and slice/index agreement over Plane.multiply paths',
    'C04': 'axis-indexed unit typing of Field.shift, linear-form extraction of tilt chains, shift conservation identity, reader/writer slot agreement',
    'C05': 'gain accounting under flag configuration, keyword check of the ortho FFT, sign/range analysis of intensity, normalisation identity',
    'C06': 'path-enumerated normal-form identities of insert/extent/merge bookkeeping, fold-identity rule',
    'C07': 'twin-branch normal forms of insert, effect analysis (accumulate only), dimension of the phasor exponent, value flow of metadata',
    'C08': 'exhaustive comparison of the documented RST tables with the code tables; constant-folded transition function; call binding; effect ordering',
    'C09': 'dominance of guards and zeroing, comparison-operator contract of the scratch guard, centred-FFT nesting rule, symmetry proof for crossed arguments',
    'C10': 'interprocedural effect and alias analysis over all write sites against the documented in-place allow-list; RNG provenance; module-state writes',
    'C11': 'guaranteed-factor analysis on all paths, sibling normal forms of normalised/un-normalised branches, origin identity, textbook radial term',
    'C12': 'resolved call-binding (like-named parameters), must-depend of the synthesis on the fitted mode set',
    'C13': 'operator table, effect analysis of operands, must-consult of both units, default-unit reliance, sibling call forms',
    'C14': 'exact-rational table extraction by constant folding and exhaustive closure over all unit triples; normal form and dimensions of the Planck law',
    'C15': 'dominance of setter validations, who-writes the grid, paired updates, comparison normal forms of closed ranges, textbook quadrature terms',
    'C16': 'einsum/axis contracts, sibling channel blocks, exact-replicator API rule, effect analysis, ordering of floor/clamp/cast',
    'C17': 'unit typing of the pixel scale update, guaranteed factor on amplitude only, interpolation-order and binarisation rules, deep-copy effect rule',
    'C18': 'seed-to-generator provenance and global-RNG reachability, argument provenance of draws, range/integrality, symbolic shape agreement',
    'C19': 'symbolic shape inference of kernels, range analysis (abs-derived), must-not-depend on pixel values, DC-vanishing normal forms',
    'C20': 'path-enumerated origin identities of pad, axis-derived bounds for cubes, centre-convention census, range analysis of shapes, trip counts',
}


def main():
    props = [json.loads(l) for l in open(os.path.join(VERIF, 'properties.jsonl'))]
    have = {fn[:-3].upper() for fn in os.listdir(os.path.join(VERIF, 'lsa', 'props'))
            if fn.startswith('c') and fn[1:3].isdigit() and fn.endswith('.py')}
    na_path = os.path.join(VERIF, 'specs', 'not_applicable.json')
    na = json.load(open(na_path)) if os.path.exists(na_path) else {}
    checks, not_app = [], []
    for p in props:
        pid = p['id']
        if pid in have and pid not in na:
            checks.append({
                'property_id': pid,
                'quick_cmd': f'/venv/bin/python -m lsa {pid} --tier quick',
                'thorough_cmd': f'/venv/bin/python -m lsa {pid} --tier thorough',
                'evidence_file': f'/verif/evidence/{pid}.json',
                'replay_cmd_template': f'/venv/bin/python -m lsa {pid} --explain "$(jq -r .obligation.clause {{path}})"',
                'engine': 'lsa',
                'level_claimed': {
                    'category': 'other',
                    'text': ('Static analysis (ast-based abstract interpretation, no execution): decides the structural '
                             'necessary conditions of the property listed per clause in DESIGN.md section 4 for every '
                             'input/shape/history, because they are judgments about the source. It does NOT establish '
                             'the numerical behaviour; evidence lists decided and undecided clauses.'),
                    'design_ref': f'DESIGN.md section 4 ({pid})',
                },
                'level_note': ('Trusted base: CPython ast; the numpy/scipy term models in lsa/npmodel.py; the reference '
                               'tables in specs/ and the rule modules. Findings keyed (clause|construct|role).'),
                'technique': 'static analysis: ' + TECH[pid],
            })
        else:
            not_app.append({'property_id': pid,
                            'reason': na.get(pid, 'check not built yet (rules planned in DESIGN.md section 4)')})
    m = {
        'version': 1,
        'setup_cmd': '/venv/bin/python -c "import ast, json, fractions; print(\'lsa: stdlib only, nothing to build\')"',
        'hooks': {'guard': 'LENTIL_VERIF',
                  'enable': 'none: static analysis reads the source of /repo; no instrumentation exists',
                  'baseline_off_cmd': 'cd /repo && /venv/bin/python -m pytest -ra -q -p no:cacheprovider --timeout=900',
                  'source_commits': [], 'add_only': True},
        'engines': [{'name': 'lsa', 'path': '/verif/lsa',
                     'serves_properties': [c['property_id'] for c in checks],
                     'kind_free_text': 'ast-based abstract interpreter (term/normal-form domain with event log) plus '
                                       'table, binding, dimension, shape, range and effect analyses'}],
        'checks': checks,
        'not_applicable': not_app,
        'notes': 'Static analysis only. Known findings in /verif/known_findings.json. See DESIGN.md.',
    }
    with open(os.path.join(VERIF, 'MANIFEST.json'), 'w') as fh:
        json.dump(m, fh, indent=1)
    print(f'{len(checks)} checks, {len(not_app)} not_applicable')


if __name__ == '__main__':
    main()
