#!/venv/bin/python
"""Confirm a seeded change and run every check against it.

usage: eval_seeded.py <dir with patch.diff and demo.py> [--props C01,C02]

Steps (all on scratch copies of /repo outside /repo and /verif, removed afterwards):
  1. patch applies to the current tree
  2. demo.py exits 0 on the clean copy and non-zero on the patched copy
  3. the repository's test suite passes on the patched copy
  4. every registered quick check is run against the patched copy; the ones
     that report a VIOLATION are listed
"""
import argparse
import json
import os
import shutil
import subprocess
import sys
import tempfile

VERIF = os.path.dirname(os.path.dirname(os.path.abspath(__file__)))
PROPS = [f'C{i:02d}' for i in range(1, 21)]


def copy_repo():
    tmp = tempfile.mkdtemp(prefix='lsa-seeded-')
    subprocess.run(['git', '-C', '/repo', 'archive', '--format=tar', 'HEAD', '-o', os.path.join(tmp, 'r.tar')], check=True)
    subprocess.run(['tar', '-xf', os.path.join(tmp, 'r.tar'), '-C', tmp], check=True)
    os.remove(os.path.join(tmp, 'r.tar'))
    return tmp


def sh(cmd, cwd, env=None, timeout=900):
    r = subprocess.run(cmd, cwd=cwd, env=env, capture_output=True, text=True, timeout=timeout)
    return r.returncode, (r.stdout + r.stderr)


def evaluate(d, props=None, verbose=True):
    patch = os.path.join(d, 'patch.diff')
    demo = os.path.join(d, 'demo.py')
    res = {'dir': d}
    clean, mod = copy_repo(), copy_repo()
    try:
        rc, out = sh(['git', 'apply', patch], cwd=mod)
        if rc != 0:
            rc, out = sh(['patch', '-p1', '-i', patch], cwd=mod)
        res['applies'] = rc == 0
        if rc != 0:
            res['apply_error'] = out[-400:]
            return res
        envc = dict(os.environ, PYTHONPATH=clean)
        envm = dict(os.environ, PYTHONPATH=mod)
        rc_c, out_c = sh(['/venv/bin/python', demo], cwd=clean, env=envc)
        rc_m, out_m = sh(['/venv/bin/python', demo], cwd=mod, env=envm)
        res['demo_clean_rc'], res['demo_modified_rc'] = rc_c, rc_m
        res['demo_modified_tail'] = out_m.strip().splitlines()[-1][:300] if out_m.strip() else ''
        if rc_c != 0:
            res['demo_clean_tail'] = out_c.strip().splitlines()[-1][:300] if out_c.strip() else ''
        # the repository suite has one randomly failing test on the clean tree (test_shot_noise_gaussian, unseeded):
        # a run that fails is repeated; the change counts as suite-passing if a complete run passes
        for attempt in range(3):
            rc_t, out_t = sh(['/venv/bin/python', '-m', 'pytest', '-q', '-p', 'no:cacheprovider', '--timeout=900', 'tests'],
                             cwd=mod, env=envm)
            if rc_t == 0:
                break
            res.setdefault('suite_failed_attempts', []).append(
                [l for l in out_t.splitlines() if l.startswith('FAILED')][:3])
        res['suite_rc'] = rc_t
        res['suite_tail'] = out_t.strip().splitlines()[-1][:200] if out_t.strip() else ''
        fired, errors = {}, {}
        env = dict(os.environ, LENTIL_REPO=mod, LSA_EVIDENCE_DIR=os.path.join(mod, '_evidence'), PYTHONPATH=VERIF)
        for pid in (props or PROPS):
            rc, out = sh(['/venv/bin/python', '-m', 'lsa', pid, '--tier', 'quick'], cwd=VERIF, env=env)
            if rc == 1:
                fired[pid] = [l for l in out.splitlines() if l.startswith('FINDING')][:6]
            elif rc != 0:
                errors[pid] = out.strip().splitlines()[-1][:300] if out.strip() else f'rc={rc}'
        res['fired'] = fired
        res['errors'] = errors
        return res
    finally:
        shutil.rmtree(clean, ignore_errors=True)
        shutil.rmtree(mod, ignore_errors=True)


if __name__ == '__main__':
    ap = argparse.ArgumentParser()
    ap.add_argument('dirs', nargs='+')
    ap.add_argument('--props', default=None)
    a = ap.parse_args()
    for d in a.dirs:
        r = evaluate(d, a.props.split(',') if a.props else None)
        print(json.dumps(r, indent=1))
