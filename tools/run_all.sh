#!/bin/bash
# run all 20 quick checks in parallel; print the summary line of each and a verdict line
cd /verif
tmp=$(mktemp -d /tmp/lsa-runall-XXXX)
for i in $(seq -w 1 20); do ( /venv/bin/python -m lsa C$i "$@" > $tmp/C$i.log 2>&1; echo $? > $tmp/C$i.rc ) & done; wait
bad=0
for i in $(seq -w 1 20); do
  tail -1 $tmp/C$i.log
  rc=$(cat $tmp/C$i.rc)
  if [ "$rc" != "0" ] || grep -q "^VIOLATION\|ANALYSIS-ERROR" $tmp/C$i.log; then bad=$((bad+1)); echo "  ^^^ C$i exit $rc"; grep "^VIOLATION\|ANALYSIS-ERROR" $tmp/C$i.log | head -3; fi
done
grep -h "^KNOWN-FINDING" $tmp/*.log | cut -c1-160
echo "RUN-ALL: $((20-bad)) of 20 checks exit 0 without a violation"
rm -rf $tmp
