#!/bin/bash
# run all 20 quick checks in parallel; print last line of each
cd /verif
for i in $(seq -w 1 20); do ( /venv/bin/python -m lsa C$i "$@" 2>&1 | tail -1 ) & done; wait
