#!/venv/bin/python
"""Run every check against behaviour-preserving refactorings: any exit 1 is a
false alarm, any exit 2 an analysis that no longer understands harmless code."""
import concurrent.futures as cf
import glob
import json
import os
import shutil
import subprocess
import sys
sys.path.insert(0, os.path.dirname(os.path.abspath(__file__)))
from eval_seeded import copy_repo, sh, PROPS, VERIF   # noqa: E402


def evaluate(d):
    patch = os.path.join(d, 'patch.diff')
    res = {'dir': d}
    mod = copy_repo()
    try:
        rc, out = sh(['git', 'apply', patch], cwd=mod)
        if rc != 0:
            rc, out = sh(['patch', '-p1', '-i', patch], cwd=mod)
        res['applies'] = rc == 0
        if rc != 0:
            res['apply_error'] = out[-300:]
            return res
        envm = dict(os.environ, PYTHONPATH=mod)
        eq = os.path.join(d, 'equiv.py')
        if FAST:
            res['suite_rc'] = 'skipped'
        if os.path.exists(eq) and not FAST:
            rc_e, out_e = sh(['/venv/bin/python', eq], cwd=mod, env=envm)
            res['equiv_rc'] = rc_e
            if rc_e:
                res['equiv_tail'] = out_e.strip().splitlines()[-1][:200] if out_e.strip() else ''
        for attempt in range(0 if FAST else 3):
            rc_t, out_t = sh(['/venv/bin/python', '-m', 'pytest', '-q', '-p', 'no:cacheprovider', 'tests'], cwd=mod, env=envm)
            if rc_t == 0:
                break
        if not FAST:
            res['suite_rc'] = rc_t
        alarms, errors = {}, {}
        env = dict(os.environ, LENTIL_REPO=mod, LSA_EVIDENCE_DIR=os.path.join(mod, '_evidence'), PYTHONPATH=VERIF)
        for pid in PROPS:
            rc, out = sh(['/venv/bin/python', '-m', 'lsa', pid, '--tier', 'quick'], cwd=VERIF, env=env)
            if rc == 1:
                alarms[pid] = [l for l in out.splitlines() if l.startswith('FINDING')][:4] + \
                              [l.strip() for l in out.splitlines() if l.startswith('    ')][:2]
            elif rc != 0:
                errors[pid] = [l for l in out.splitlines() if 'ANALYSIS-ERROR' in l or 'Error' in l][-2:]
        res['false_alarms'], res['analysis_errors'] = alarms, errors
        return res
    finally:
        shutil.rmtree(mod, ignore_errors=True)


FAST = '--fast' in sys.argv

if __name__ == '__main__':
    args = [a for a in sys.argv[1:] if not a.startswith('--')]
    pat = args[0] if args else os.path.join(VERIF, 'variants', 'refactors', 'R*')
    dirs = sorted(d for d in glob.glob(pat) if os.path.exists(os.path.join(d, 'patch.diff')) and os.path.exists(os.path.join(d, 'notes.md')))
    out = {}
    with cf.ThreadPoolExecutor(max_workers=8) as ex:
        for r in ex.map(evaluate, dirs):
            out[r['dir']] = r
            print(r['dir'], 'applies' if r.get('applies') else 'NOAPPLY', 'equiv', r.get('equiv_rc'), 'suite', r.get('suite_rc'),
                  'FALSE-ALARMS', sorted(r.get('false_alarms', {})), 'ERRORS', sorted(r.get('analysis_errors', {})))
    json.dump(out, open('/tmp/scratch/refactor_results.json', 'w'), indent=1)
